(** Model of the stream sample codecs: client-side decode
    (Parser.frame_stream_decode, _stream_data_get, msfmt_get, dsfmt_get) and
    device-side encode (ParseRecv._stream_data_encode, _stream_bytes_get). *)
From Coq Require Import String DecimalString.
From NX Require Export Request Utf8 StreamTypes Rn53.
From NX Require Gen_types.
Open Scope string_scope.
Open Scope list_scope.
Open Scope Z_scope.

Infix "^^" := String.append (at level 60, right associativity).

Definition kind_of (name : string) : Z :=
  match find (fun p => String.eqb (fst p) name) Gen_types.data_kinds with
  | Some p => snd p
  | None => -1
  end.

(** str(n) for n >= 0 *)
Definition str_of_Z (z : Z) : string := NilZero.string_of_uint (N.to_uint (Z.to_N z)).

Record chan_l := mkChanL { l_type : Z; l_vdim : Z; l_mlen : Z; l_chan : Z }.
Definition layout := list chan_l.

(** user types: (type value, row, user flag) *)
Definition utable := list (Z * (row * bool)).

Fixpoint zassoc {A} (k : Z) (l : list (Z * A)) : option A :=
  match l with
  | [] => None
  | (k', v) :: r => if k' =? k then Some v else zassoc k r
  end.

(** dsfmt_get: (row, user?) *)
Definition dsfmt_get (dtype : Z) (user : utable) : res (row * bool) :=
  match zassoc dtype Gen_types.dsfmt_rows with
  | Some r => Ok (r, false)
  | None =>
      match zassoc dtype user with
      | Some (r, u) =>
          if negb (r_slen r =? 1) then Raise "AssertionError"
          else if negb u then Raise "AssertionError"
          else match r_scale r with
               | SNone => Ok (r, true)
               | _ => Raise "AssertionError"
               end
      | None => Raise "KeyError"
      end
  end.

(** msfmt_get *)
Definition msfmt_get (mlen : Z) : string :=
  match zassoc mlen Gen_types.msfmt_rows with
  | Some s => s
  | None => str_of_Z mlen ++ Gen_types.msfmt_default_suffix
  end.

Definition sfmt_parse (s : string) : res fmt :=
  match parse_fmt s with
  | Some f => Ok f
  | None => Raise "struct.error"
  end.

Inductive sval :=
  | SVInt (z : Z)
  | SVBool (b : bool)
  | SVF32 (bits : N)
  | SVF64 (bits : N)
  | SVDyad (num e : Z)          (* num / 2^e, normalised *)
  | SVText (cps : list N)
  | SVLossy                     (* text decoded with replacement characters *)
  | SVBytes (b : bytes)
  | SVUnmodelled.

Record sample := mkSample
  { s_chan : Z; s_kind : Z; s_vdim : Z; s_mlen : Z; s_data : list sval; s_meta : list sval }.

Definition sval_raw (v : value) : sval :=
  match v with
  | VInt z => SVInt z
  | VBool b => SVBool b
  | VBytes b => SVBytes b
  | VF32 b => SVF32 b
  | VF64 b => SVF64 b
  | VDy n e => let '(n', e') := dyad_norm n e in SVDyad n' e'
  end.

Definition scale_divides (s : scale) : option Z :=
  match s with
  | SNone => None
  | SInt z | SFloat z => if (z =? 0) || (z =? Gen_types.decode_unit_scale) then None else Some z
  end.

(** x / scale as a Python float *)
Definition div_scale (sc : Z) (v : value) : sval :=
  match v, pow2_log sc with
  | VInt z, Some k => let '(n, e) := dyad_norm (rn53 z) k in SVDyad n e
  | _, _ => SVUnmodelled
  end.

Definition text_of (b : bytes) : sval :=
  match utf8_dec b with
  | Some cps => SVText cps
  | None => SVLossy
  end.

(** _stream_data_get *)
Definition stream_data_get (r : row) (unpacked : list value) : res (list sval) :=
  match (if r_kind r =? kind_of "NUM" then scale_divides (r_scale r) else None) with
  | Some sc => Ok (map (div_scale sc) unpacked)
  | None =>
      if (r_kind r =? kind_of "CHAR") then
        match unpacked with
        | [VBytes b] => Ok [text_of b]
        | [_] => Raise "AttributeError"       (* .decode() on a non-bytes value *)
        | _ => Ok (map sval_raw unpacked)
        end
      else Ok (map sval_raw unpacked)
  end.

Fixpoint nth_chan (lay : layout) (i : nat) : option chan_l :=
  match lay, i with
  | [], _ => None
  | c :: _, O => Some c
  | _ :: r, S i' => nth_chan r i'
  end.

(** one sample from the head of [rest]; returns it with the remaining bytes *)
Definition decode_one (lay : layout) (user : utable) (rest : bytes) : res (sample * bytes) :=
  match rest with
  | [] => Raise "IndexError"
  | chb :: r0 =>
      match nth_chan lay (N.to_nat chb) with
      | None => Raise "AssertionError"
      | Some ch =>
          let meta := msfmt_get (l_mlen ch) in
          bind (dsfmt_get (l_type ch) user)
            (fun du =>
               let '(rw, usr) := du in
               bind (if usr then
                       bind (sfmt_parse (Gen_types.stream_le_prefix ^^ r_fmt rw))
                            (fun f => if Z.of_nat (calcsize f) =? l_vdim ch then Ok tt
                                      else Raise "AssertionError")
                     else Ok tt)
                 (fun _ =>
                    let sfmt := Gen_types.stream_le_prefix
                                ^^ (if negb (l_vdim ch =? 0) && negb usr then str_of_Z (l_vdim ch) else "")
                                ^^ r_fmt rw in
                    let offset := r_slen rw * l_vdim ch in
                    bind (sfmt_parse sfmt)
                      (fun f =>
                         match unpack f (pyslice r0 0 offset) with
                         | None => Raise "struct.error"
                         | Some unpacked =>
                             let r1 := slice_from r0 (Z.max 0 offset) in
                             bind (stream_data_get rw unpacked) (fun retdata =>
                             bind (sfmt_parse (Gen_types.meta_le_prefix ^^ meta))
                               (fun fm =>
                                  match unpack fm (pyslice r1 0 (l_mlen ch)) with
                                  | None => Raise "struct.error"
                                  | Some mvals =>
                                      Ok (mkSample (l_chan ch) (r_kind rw) (l_vdim ch) (l_mlen ch)
                                                   retdata (map sval_raw mvals),
                                          slice_from r1 (Z.max 0 (l_mlen ch)))
                                  end))
                         end)))
      end
  end.

Fixpoint decode_samples (fuel : nat) (lay : layout) (user : utable) (rest : bytes)
  : res (list sample) :=
  match rest with
  | [] => Ok []
  | _ =>
      match fuel with
      | O => Raise "out-of-fuel"
      | S f =>
          bind (decode_one lay user rest)
               (fun sr => let '(s, r) := sr in
                          bind (decode_samples f lay user r) (fun t => Ok (s :: t)))
      end
  end.

(** frame_stream_decode on the data of a STREAM frame: None for empty data *)
Definition stream_decode (lay : layout) (user : utable) (data : bytes)
  : res (option (Z * list sample)) :=
  match data with
  | [] => Ok None
  | flags :: rest =>
      bind (decode_samples (List.length rest) lay user rest)
           (fun ss => Ok (Some (Z.of_N flags, ss)))
  end.

(** * device side: _stream_data_encode / _stream_bytes_get
    Sample values are carried at the level of the channel's type: integers,
    IEEE bit patterns, fixed-point raw words (value = raw / scale), text. *)
Inductive evalue :=
  | EVInt (z : Z)
  | EVF32 (bits : N)
  | EVF64 (bits : N)
  | EVFix (raw : Z)
  | EVText (cps : list N)
  | EVBytes (b : bytes).

Record esample := mkESample
  { e_chan : Z; e_type : Z; e_vdim : Z; e_mlen : Z; e_data : list evalue; e_meta : list Z }.

(** values handed to struct.pack for a numerical row *)
Definition num_value (sc : option Z) (v : evalue) : res value :=
  match sc, v with
  | None, EVInt z => Ok (VInt z)                  (* on an f/d row struct.pack converts it: float(z) *)
  | None, EVF32 b => Ok (VF32 b)
  | None, EVF64 b => Ok (VF64 b)
  | None, EVBytes b => Ok (VBytes b)
  | Some _, EVFix raw => Ok (VInt raw)            (* round(raw/scale * scale) *)
  | Some s, EVInt z => Ok (VInt (z * s))          (* round(z * scale) *)
  | _, _ => Raise "unmodelled"
  end.

Fixpoint mapM {A B} (f : A -> res B) (l : list A) : res (list B) :=
  match l with
  | [] => Ok []
  | x :: r => bind (f x) (fun y => bind (mapM f r) (fun t => Ok (y :: t)))
  end.

Definition raw_value (v : evalue) : res value :=
  match v with
  | EVInt z => Ok (VInt z)
  | EVF32 b => Ok (VF32 b)
  | EVF64 b => Ok (VF64 b)
  | EVBytes b => Ok (VBytes b)
  | EVText cps => Ok (VBytes (utf8_enc cps))
  | EVFix _ => Raise "unmodelled"
  end.

Definition stream_bytes_get (rw : row) (usr : bool) (s : esample) : res bytes :=
  let fmt := Gen_types.enc_le_prefix ^^ Gen_types.enc_chan_code
             ^^ (if negb (e_vdim s =? 0)
                 then (if negb usr then str_of_Z (e_vdim s) ^^ r_fmt rw else r_fmt rw)
                 else "") in
  bind (sfmt_parse fmt)
    (fun f =>
       let packv (vs : list value) :=
         match pack f (VInt (e_chan s) :: vs) with
         | Some b => Ok b
         | None => Raise "struct.error"
         end in
       if r_kind rw =? kind_of "NUM" then
         let sc := match r_scale rw with
                   | SNone => None
                   | SInt z | SFloat z =>
                       if (z =? 0) || (z =? Gen_types.enc_unit_scale) then None else Some z
                   end in
         bind (mapM (num_value sc) (e_data s)) packv
       else if r_kind rw =? kind_of "CHAR" then
         match e_data s with
         | EVText cps :: _ =>
             if forallb valid_cp cps then packv [VBytes (utf8_enc cps)]
             else Raise "UnicodeEncodeError"
         | [] => Raise "IndexError"
         | _ => Raise "TypeError"
         end
       else if r_kind rw =? kind_of "NONE" then packv []
       else if r_kind rw =? kind_of "COMPLEX" then bind (mapM raw_value (e_data s)) packv
       else Raise "AssertionError").

Definition is_nil {A} (l : list A) : bool := match l with [] => true | _ => false end.

Fixpoint encode_samples (user : utable) (l : list esample) : res (bytes * Z) :=
  match l with
  | [] => Ok ([], 0)
  | s :: r =>
      if is_nil (e_data s) && is_nil (e_meta s) then encode_samples user r
      else
        bind (dsfmt_get (e_type s) user)
          (fun du =>
             let '(rw, usr) := du in
             let msfmt := msfmt_get (e_mlen s) in
             bind (stream_bytes_get rw usr s)
               (fun b =>
                  bind (if String.eqb msfmt "" then Ok []
                        else bind (sfmt_parse msfmt)
                               (fun fm => match pack fm (map VInt (e_meta s)) with
                                          | Some m => Ok m
                                          | None => Raise "struct.error"
                                          end))
                    (fun m =>
                       bind (encode_samples user r)
                            (fun t => Ok (b ++ m ++ fst t, 1 + snd t)))))
  end.

(** _stream_data_encode: None when no sample carried data or metadata *)
Definition stream_data_encode (user : utable) (l : list esample) : res (option bytes) :=
  bind (spack Gen_types.enc_flags_fmt [VInt 0])
    (fun fl =>
       bind (encode_samples user l)
            (fun bc => if snd bc =? 0 then Ok None else Ok (Some (fl ++ fst bc)))).

Definition frame_stream_encode (user : utable) (l : list esample) : res (option bytes) :=
  bind (stream_data_encode user l)
    (fun ob => match ob with
               | None => Ok None
               | Some b => bind (frame_create (id_of "STREAM") b) (fun f => Ok (Some f))
               end).

(** Model of simulated-device instances over an object store (C16): channel
    objects live at locations; an instance owns a list of locations.  How the
    default channel set is obtained is regenerated from DummyDev.__init__
    (Gen_misc.dummy_default_fresh). *)
From Coq Require Import List ZArith Bool Lia.
From NX Require Gen_misc.
Import ListNotations.
Open Scope nat_scope.

Record chan_obj := mkObj { o_en : bool; o_div : Z; o_gen : nat }.   (* o_gen: generator state *)
Definition store := list chan_obj.
Record inst := mkInst { locs : list nat; qread : list nat; started_f : bool }.

Fixpoint upd {A} (l : list A) (i : nat) (f : A -> A) : list A :=
  match l, i with
  | [], _ => []
  | x :: r, O => f x :: r
  | x :: r, S i' => x :: upd r i' f
  end.

Inductive dop :=
  | DSetEn (k : nat) (v : bool)       (* enable request applied to channel k of the instance *)
  | DSetDiv (k : nat) (v : Z)
  | DGen (k : nat)                    (* the stream thread takes one sample from channel k *)
  | DStart                            (* start(): reset every channel's generator *)
  | DStop.                            (* stop(): drain the queues *)

Definition loc_of (i : inst) (k : nat) : option nat := nth_error (locs i) k.

Definition dstep (st : store) (i : inst) (o : dop) : store * inst :=
  match o with
  | DSetEn k v => match loc_of i k with
                  | Some l => (upd st l (fun c => mkObj v (o_div c) (o_gen c)), i)
                  | None => (st, i)
                  end
  | DSetDiv k v => match loc_of i k with
                   | Some l => (upd st l (fun c => mkObj (o_en c) v (o_gen c)), i)
                   | None => (st, i)
                   end
  | DGen k => match loc_of i k with
              | Some l => (upd st l (fun c => mkObj (o_en c) (o_div c) (S (o_gen c))),
                           mkInst (locs i) (qread i ++ [match nth_error st l with Some c => S (o_gen c) | None => 0 end])
                                  (started_f i))
              | None => (st, i)
              end
  | DStart => (fold_left (fun s l => upd s l (fun c => mkObj (o_en c) (o_div c) 0)) (locs i) st,
               mkInst (locs i) (qread i) true)
  | DStop => (st, mkInst (locs i) [] false)
  end.

Definition drun (st : store) (i : inst) (ops : list dop) : store * inst :=
  fold_left (fun si o => dstep (fst si) (snd si) o) ops (st, i).

(** the module-level default channel objects occupy locations 0..n-1 of the
    initial store; a default instance either gets fresh copies or those *)
Definition mk_default (n : nat) (st : store) : store * inst :=
  if Gen_misc.dummy_default_fresh
  then (st ++ firstn n st, mkInst (seq (length st) n) [] false)
  else (st, mkInst (seq 0 n) [] false).

(** an instance built from a caller's own list of fresh channel objects *)
Definition mk_custom (objs : list chan_obj) (st : store) : store * inst :=
  (st ++ objs, mkInst (seq (length st) (length objs)) [] false).

Definition disjoint (a b : list nat) : Prop := forall x, In x a -> ~ In x b.

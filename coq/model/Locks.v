(** Lock discipline (C12): the regenerated lock-nesting relation, ranks, and
    an abstract wait-for structure. *)
From Coq Require Import String List Arith Bool.
From NX Require Gen_misc.
Import ListNotations.
Open Scope string_scope.

Definition lock_rank (l : string) : nat :=
  if String.eqb l "channels" then 1
  else if String.eqb l "queue" then 1
  else if String.eqb l "devinfo" then 2
  else 0.

(** every nesting edge goes to a strictly greater rank: no two locks are ever
    taken in opposite orders *)
Definition edges_ranked (es : list (string * string)) : bool :=
  forallb (fun e => Nat.ltb (lock_rank (fst e)) (lock_rank (snd e))) es.

(** accesses to lock-protected fields outside the lock that are part of the
    design: constructors, and connect() before the stream thread exists *)
Definition allowed_unguarded : list string :=
  ["CommHandler.__init__:_channels"; "Device.__init__:_channels";
   "NxscopeHandler.__init__:_sub_q"; "NxscopeHandler.connect:_sub_q"].

Definition all_guarded (l : list string) : bool :=
  forallb (fun x => existsb (String.eqb x) allowed_unguarded) l.

(** threads as (locks held, lock waited for), by rank *)
Record thr := mkThr { holds : list nat; waits : option nat }.

Definition ordered (t : thr) : Prop :=
  match waits t with
  | Some w => Forall (fun h => h < w) (holds t)
  | None => True
  end.

Definition waits_on (a b : thr) : Prop := exists w, waits a = Some w /\ In w (holds b).

(** a wait-for path a = t0 -> t1 -> ... -> b *)
Inductive path : thr -> thr -> Prop :=
  | path_one a b : waits_on a b -> path a b
  | path_step a b c : waits_on a b -> path b c -> path a c.

(** A parameterised family of custom frame codecs (the ones the harness
    implements as ICommFrame subclasses): start byte, header length with the
    length and id fields at any position, 1- or 2-byte length in either
    endianness, XOR or additive-sum footer.  (CRC-32 members are exercised by the
    harness only; no CRC-32 model here.) *)
From Coq Require Import String.
From NX Require Export Codec.
Open Scope Z_scope.

Inductive foot_kind := FXor | FSum.

Record fam := mkFam
  { f_sof : N; f_hdr_len : nat; f_len_pos : nat; f_len_bytes : nat; f_len_be : bool;
    f_id_pos : nat; f_foot : foot_kind; f_foot_len : nat }.

Definition fam_ok (m : fam) : bool :=
  Nat.leb 3 (f_hdr_len m) && Nat.leb (f_hdr_len m) 8 &&
  Nat.leb 1 (f_len_pos m) && Nat.leb (f_len_pos m + f_len_bytes m) (f_hdr_len m) &&
  Nat.leb 1 (f_len_bytes m) && Nat.leb (f_len_bytes m) 2 &&
  Nat.leb 1 (f_id_pos m) && Nat.ltb (f_id_pos m) (f_hdr_len m) &&
  Nat.leb 1 (f_foot_len m) && Nat.leb (f_foot_len m) 4 && (f_sof m <? 256)%N.

Definition sub {A} (l : list A) (pos n : nat) : list A := firstn n (skipn pos l).

Definition fam_hdr_decode (m : fam) (d : bytes) : res (Z * Z) :=
  if zlen d <? Z.of_nat (f_hdr_len m) then Err EHDR else
  let h := firstn (f_hdr_len m) d in
  if negb (nth 0 h 0%N =? f_sof m)%N then Err EHDR else
  let lenb := sub h (f_len_pos m) (f_len_bytes m) in
  let flen := Z.of_N (if f_len_be m then be_dec lenb else le_dec lenb) in
  let id := Z.of_N (nth (f_id_pos m) h 0%N) in
  if known_id id then Ok (id, flen) else Err EHDR.

Definition fam_footer (m : fam) (body : bytes) : bytes :=
  match f_foot m with
  | FXor => firstn (f_foot_len m) (fold_left N.lxor body 0%N :: repeat 0%N (f_foot_len m))
  | FSum => le_enc (f_foot_len m) (fold_left N.add body 0%N)
  end.

Fixpoint bytes_eqb (a b : bytes) : bool :=
  match a, b with
  | [], [] => true
  | x :: r, y :: s => (x =? y)%N && bytes_eqb r s
  | _, _ => false
  end.

(** frame_decode of the family: its argument is exactly one frame *)
Definition fam_frame_decode (m : fam) (d : bytes) : res (Z * bytes) :=
  match fam_hdr_decode m d with
  | Raise w => Raise w
  | Err e => Err e
  | Ok (fid, flen) =>
      let hl := Z.of_nat (f_hdr_len m) in
      let fl := Z.of_nat (f_foot_len m) in
      if negb (flen =? zlen d) || (flen <? hl + fl) then Err EFOOT else
      let n := length d in
      let body := firstn (n - f_foot_len m) d in
      if bytes_eqb (fam_footer m body) (skipn (n - f_foot_len m) d)
      then Ok (fid, skipn (f_hdr_len m) body) else Err EFOOT
  end.

Definition fam_codec (m : fam) : codec :=
  mkCodec (Z.of_nat (f_hdr_len m)) (f_sof m) (fam_hdr_decode m) (fam_frame_decode m).

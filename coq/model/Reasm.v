(** Model of frame reassembly on the client: CommHandler._read_hdr /
    _read_frame (comm.py) over a link that hands out a list of read chunks
    (empty chunks allowed) and is silent afterwards; and the independent
    one-pass specification [scan]. *)
From Coq Require Import String.
From NX Require Export Frame.
Open Scope Z_scope.

(** the link: remaining read chunks; a read on an exhausted link returns [] *)
Definition link := list bytes.
Definition read (l : link) : bytes * link :=
  match l with
  | [] => ([], [])
  | c :: r => (c, r)
  end.

(** inner loop of _read_hdr: accumulate at least hdr_len bytes.
    None = an empty read came first (buffer kept by the caller) *)
Fixpoint accumulate (fuel : nat) (need : Z) (buf : bytes) (l : link)
  : option bytes * bytes * link :=
  if zlen buf <? need then
    match fuel with
    | O => (None, buf, l)
    | S f =>
        let '(rd, l') := read l in
        match rd with
        | [] => (None, buf, l')
        | _ => accumulate f need (buf ++ rd) l'
        end
    end
  else (Some buf, buf, l).

Inductive hdr_out :=
  | HNone (prev : bytes) (l : link)                 (* (None, None) *)
  | HFound (fid flen : Z) (buf : bytes) (l : link)
  | HRaise (w : string)
  | HFuel.

(** _read_hdr *)
Fixpoint read_hdr (fuel : nat) (prev : bytes) (l : link) : hdr_out :=
  match fuel with
  | O => HFuel
  | S f =>
      match accumulate (S (length l)) hdr_len prev l with
      | (None, buf, l') => HNone buf l'
      | (Some buf, _, l') =>
          let i := hdr_find buf in
          if i <? 0 then HNone [] l'
          else
            let b := slice_from buf i in
            if zlen b <? hdr_len then read_hdr f b l'
            else match hdr_decode b with
                 | Raise w => HRaise w
                 | Err _ => read_hdr f (slice_from b 1) l'
                 | Ok (fid, flen) => HFound fid flen b l'
                 end
      end
  end.

Inductive frame_out :=
  | FNone (prev : bytes) (l : link)
  | FFrame (fid : Z) (payload : bytes) (prev : bytes) (l : link)
  | FRaise (w : string)
  | FFuel.

(** while len(_bytes) < flen: rdata = read(); if not rdata: break; _bytes += rdata *)
Fixpoint fill (fuel : nat) (need : Z) (buf : bytes) (l : link) : bytes * link :=
  if zlen buf <? need then
    match fuel with
    | O => (buf, l)
    | S f =>
        let '(rd, l') := read l in
        match rd with
        | [] => (buf, l')
        | _ => fill f need (buf ++ rd) l'
        end
    end
  else (buf, l).

(** _read_frame *)
Definition read_frame (prev : bytes) (l : link) : frame_out :=
  match read_hdr (S (length prev + length (concat l) + length l)) prev l with
  | HFuel => FFuel
  | HRaise w => FRaise w
  | HNone p l' => FNone p l'
  | HFound fid flen b l' =>
      let '(b2, l2) := fill (S (length l')) flen b l' in
      if zlen b2 <? flen then FNone b2 l2
      else match frame_decode (slice_to b2 flen) with
           | Ok (fid', p) => FFrame fid' p (slice_from b2 flen) l2
           | Err _ => FNone (slice_from b2 1) l2
           | Raise w => FRaise w
           end
  end.

(** the receive loop: call _read_frame until the link is exhausted and a call
    made on the exhausted link returned nothing and left the buffer as it was *)
Fixpoint recv_loop (fuel : nat) (prev : bytes) (l : link) (acc : list (Z * bytes))
  : option (list (Z * bytes) * bytes) :=
  match fuel with
  | O => None
  | S f =>
      match read_frame prev l with
      | FFuel | FRaise _ => None
      | FFrame fid p prev' l' => recv_loop f prev' l' (acc ++ [(fid, p)])
      | FNone prev' l' =>
          match l with
          | [] => if Nat.eqb (length prev') (length prev) then Some (acc, prev')
                  else recv_loop f prev' l' acc       (* buffered bytes still being scanned *)
          | _ => recv_loop f prev' l' acc
          end
      end
  end.

Definition recv_all (chunks : link) : option (list (Z * bytes) * bytes) :=
  recv_loop (2 * (length (concat chunks) + length chunks) + 4) [] chunks [].

(** * Specification: one left-to-right pass over the received bytes *)
Fixpoint scan_fuel (fuel : nat) (s : bytes) : list (Z * bytes) * bytes :=
  match fuel with
  | O => ([], s)
  | S f =>
      match s with
      | [] => ([], [])
      | x :: r =>
          if negb (x =? sof_byte)%N then scan_fuel f r             (* skip to the next SOF *)
          else if zlen s <? hdr_len then ([], s)                   (* header incomplete: pending *)
          else match hdr_decode s with
               | Ok (fid, flen) =>
                   if zlen s <? flen then ([], s)                  (* frame incomplete: pending *)
                   else match frame_decode (slice_to s flen) with
                        | Ok (fid', p) =>
                            let '(fs, rest) := scan_fuel f (slice_from s (Z.max 1 flen)) in
                            ((fid', p) :: fs, rest)
                        | _ => scan_fuel f r                       (* bad CRC / length: advance one byte *)
                        end
               | _ => scan_fuel f r                                (* bad header: advance one byte *)
               end
      end
  end.

Definition scan (s : bytes) : list (Z * bytes) * bytes := scan_fuel (S (length s)) s.

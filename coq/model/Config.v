(** Model of the buffered channel configuration (comm.py: ch_enable /
    ch_disable / ch_divider / channels_default_cfg / channels_write,
    _nxslib_channels_enable / _nxslib_channels_div) against an abstract
    NxScope device.  Requests travel as their meaning (justified by C05: the
    device derives exactly the intended vector from the bytes). *)
From Coq Require Import List ZArith Bool.
Import ListNotations.
Open Scope Z_scope.

(** requests as the device understands them *)
Inductive req :=
  | RqEnSingle (k : nat) (v : bool)
  | RqEnVec (l : list bool)
  | RqDivSingle (k : nat) (v : Z)
  | RqDivVec (l : list Z).

(** what happens to one request on its way (chosen by the adversary) *)
Inductive answer :=
  | Ack                (* applied, acknowledged with 0 *)
  | Nack (r : Z)       (* rejected with a non-zero code: not applied *)
  | LostReq            (* request lost: not applied, no answer *)
  | LostAck.           (* applied, acknowledgement lost *)

Record device := mkDev
  { d_en : list bool; d_div : list Z; d_log : list req;
    d_div_supported : bool; d_ack_supported : bool }.

Record client := mkCli
  { en_now : list bool; en_new : list bool; div_now : list Z; div_new : list Z;
    en_sync : bool; div_sync : bool }.

Fixpoint set_nth {A} (l : list A) (i : nat) (x : A) : list A :=
  match l, i with
  | [], _ => []
  | _ :: r, O => x :: r
  | y :: r, S i' => y :: set_nth r i' x
  end.

Definition apply_req (d : device) (r : req) : device :=
  match r with
  | RqEnSingle k v => mkDev (set_nth (d_en d) k v) (d_div d) (d_log d ++ [r]) (d_div_supported d) (d_ack_supported d)
  | RqEnVec l => mkDev l (d_div d) (d_log d ++ [r]) (d_div_supported d) (d_ack_supported d)
  | RqDivSingle k v => mkDev (d_en d) (set_nth (d_div d) k v) (d_log d ++ [r]) (d_div_supported d) (d_ack_supported d)
  | RqDivVec l => mkDev (d_en d) l (d_log d ++ [r]) (d_div_supported d) (d_ack_supported d)
  end.

Definition log_only (d : device) (r : req) : device :=
  mkDev (d_en d) (d_div d) (d_log d) (d_div_supported d) (d_ack_supported d).

(** the device's side of one request; returns the device and whether the
    client sees a positive acknowledgement (_get_ack: no ACK support => success) *)
Definition transmit (d : device) (r : req) (a : answer) : device * bool :=
  if negb (d_ack_supported d) then (apply_req d r, true)
  else match a with
       | Ack => (apply_req d r, true)
       | Nack _ => (d, false)
       | LostReq => (d, false)
       | LostAck => (apply_req d r, false)
       end.

(** j = number of differing positions, k = the last one *)
Fixpoint diff_scan {A} (eqb : A -> A -> bool) (new now : list A) (i : nat) (j k : nat) : nat * nat :=
  match new, now with
  | a :: r, b :: s => if eqb a b then diff_scan eqb r s (S i) j k else diff_scan eqb r s (S i) (S j) i
  | _, _ => (j, k)
  end.

(** _nxslib_channels_enable *)
Definition write_enable (c : client) (d : device) (a : answer) : client * device :=
  let '(j, k) := diff_scan Bool.eqb (en_new c) (en_now c) 0 0 0 in
  let r := if Nat.eqb j 1 && en_sync c then RqEnSingle k (nth k (en_new c) false)
           else RqEnVec (en_new c) in
  let '(d', ok) := transmit d r a in
  if ok then (mkCli (en_new c) (en_new c) (div_now c) (div_new c) true (div_sync c), d')
  else (mkCli (en_now c) (en_new c) (div_now c) (div_new c) false (div_sync c), d').

(** _nxslib_channels_div *)
Definition write_div (c : client) (d : device) (a : answer) : client * device :=
  let '(j, k) := diff_scan Z.eqb (div_new c) (div_now c) 0 0 0 in
  let r := if Nat.eqb j 1 && div_sync c then RqDivSingle k (nth k (div_new c) 0)
           else RqDivVec (div_new c) in
  let '(d', ok) := transmit d r a in
  if ok then (mkCli (en_now c) (en_new c) (div_new c) (div_new c) (en_sync c) true, d')
  else (mkCli (en_now c) (en_new c) (div_now c) (div_new c) (en_sync c) false, d').

(** channels_write: divider request (if supported) then enable request *)
Definition write (c : client) (d : device) (a_div a_en : answer) : client * device :=
  let '(c1, d1) := if d_div_supported d then write_div c d a_div else (c, d) in
  write_enable c1 d1 a_en.

Inductive op :=
  | OpEnable (chans : list nat)
  | OpDisable (chans : list nat)
  | OpDivider (chans : list nat) (v : Z)
  | OpEnableAll
  | OpDisableAll
  | OpDefault
  | OpWrite (a_div a_en : answer).

Definition set_many {A} (l : list A) (cs : list nat) (x : A) : list A :=
  fold_left (fun acc k => set_nth acc k x) cs l.

Definition upd_en (c : client) (l : list bool) : client :=
  mkCli (en_now c) l (div_now c) (div_new c) (en_sync c) (div_sync c).
Definition upd_div (c : client) (l : list Z) : client :=
  mkCli (en_now c) (en_new c) (div_now c) l (en_sync c) (div_sync c).

Definition step (s : client * device) (o : op) : client * device :=
  let '(c, d) := s in
  match o with
  | OpEnable cs => (upd_en c (set_many (en_new c) cs true), d)
  | OpDisable cs => (upd_en c (set_many (en_new c) cs false), d)
  | OpDivider cs v => (upd_div c (set_many (div_new c) cs v), d)
  | OpEnableAll => (upd_en c (map (fun _ => true) (en_new c)), d)
  | OpDisableAll => (upd_en c (map (fun _ => false) (en_new c)), d)
  | OpDefault => (upd_div (upd_en c (map (fun _ => false) (en_new c))) (map (fun _ => 0) (div_new c)), d)
  | OpWrite a1 a2 => write c d a1 a2
  end.

Definition run (s : client * device) (ops : list op) : client * device := fold_left step ops s.

(** state right after connect: the client copied the device's state *)
Definition connected (en : list bool) (dv : list Z) (divsup acksup : bool) : client * device :=
  (mkCli en en dv dv true true, mkDev en dv [] divsup acksup).

(** C13 - a worker runs until stopped, never after stop returns, and can be restarted. *)
From Coq Require Import List Bool.
From NX Require Import Trans Worker Worker_proofs Pinned_thread.
Import ListNotations.

(** every sequence of start/stop calls of one controlling thread and every
    interleaving with the worker incarnations at source-line granularity (any
    length): nothing forbidden is ever observed - the target never runs after
    stop has returned and before the next start, no worker is leaked (at most
    one incarnation alive), and once stop has returned no worker is alive *)
Theorem C13_safe : forall tr s,
  run wstate wlabel step tr init_state = Some s -> safeb s = true.
Proof. exact worker_safe. Qed.

Theorem C13_after_stop : forall tr s,
  run wstate wlabel step tr init_state = Some s ->
  w_last s = LStop -> c_pc s = CIdle ->
  w_handle s = None /\ w_orphan s = None \/ (w_handle s = None /\ opt_alive (w_orphan s) = false).
Proof. exact no_worker_after_stop_returns. Qed.

Theorem C13_one_incarnation : forall tr s,
  run wstate wlabel step tr init_state = Some s -> opt_alive (w_orphan s) = false /\ w_bad s = false.
Proof. exact never_two_alive. Qed.

(** start on a running worker and stop on a stopped worker do nothing *)
Theorem C13_start_noop : forall s p,
  c_pc s = CS1 -> w_handle s = Some p ->
  step s LCtl = Some (mkW CIdle (w_flag s) (w_handle s) (w_orphan s) LStart (w_bad s)).
Proof. exact start_on_running_noop. Qed.

Theorem C13_stop_noop : forall s,
  c_pc s = CT1 -> w_handle s = None ->
  step s LCtl = Some (mkW CIdle (w_flag s) None (w_orphan s) LStop (w_bad s)).
Proof. exact stop_on_stopped_noop. Qed.

(** a stopped worker can be started again *)
Theorem C13_restart : forall s,
  c_pc s = CIdle -> w_handle s = None ->
  exists s', run wstate wlabel step [LCallStart; LCtl; LCtl; LCtl; LCtl] s = Some s' /\
             w_handle s' = Some WInit /\ w_flag s' = false /\ c_pc s' = CIdle.
Proof. exact restartable. Qed.

(** init once before the first target, target repeatedly until the flag is
    seen, final once after the last target: the worker's own automaton *)
Theorem C13_loop_shape :
  wstep false WTest = Some WTarget /\ wstep false WTarget = Some WTest /\
  wstep true WTest = Some WFinal /\ wstep true WFinal = Some WDone /\ wstep false WInit = Some WTest.
Proof. exact worker_loops_until_flag. Qed.

(** an alive worker can always take its next step (it keeps calling target) *)
Theorem C13_progress : forall s p,
  w_handle s = Some p -> alive p = true -> exists s', step s LWrk = Some s'.
Proof. exact worker_progress. Qed.

Print Assumptions C13_safe.
Print Assumptions C13_after_stop.
Print Assumptions C13_restart.

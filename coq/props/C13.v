(** C13 - a worker runs until stopped, never after stop returns, and can be restarted. *)
From Coq Require Import List Bool.
From NX Require Import Trans Worker Worker_proofs Pinned_thread.
From NX Require PyLite PyLite_tactics Src_all Src_worker_base Src_worker_loop Src_worker_bridge.
Import ListNotations.

(** every sequence of start/stop calls of one controlling thread and every
    interleaving with the worker incarnations at source-line granularity (any
    length): nothing forbidden is ever observed - the target never runs after
    stop has returned and before the next start, no worker is leaked (at most
    one incarnation alive), and once stop has returned no worker is alive *)
Theorem C13_safe : forall tr s,
  run wstate wlabel step tr init_state = Some s -> safeb s = true.
Proof. exact worker_safe. Qed.

Theorem C13_after_stop : forall tr s,
  run wstate wlabel step tr init_state = Some s ->
  w_last s = LStop -> c_pc s = CIdle ->
  w_handle s = None /\ w_orphan s = None \/ (w_handle s = None /\ opt_alive (w_orphan s) = false).
Proof. exact no_worker_after_stop_returns. Qed.

Theorem C13_one_incarnation : forall tr s,
  run wstate wlabel step tr init_state = Some s -> opt_alive (w_orphan s) = false /\ w_bad s = false.
Proof. exact never_two_alive. Qed.

(** start on a running worker and stop on a stopped worker do nothing *)
Theorem C13_start_noop : forall s p,
  c_pc s = CS1 -> w_handle s = Some p ->
  step s LCtl = Some (mkW CIdle (w_flag s) (w_handle s) (w_orphan s) LStart (w_bad s)).
Proof. exact start_on_running_noop. Qed.

Theorem C13_stop_noop : forall s,
  c_pc s = CT1 -> w_handle s = None ->
  step s LCtl = Some (mkW CIdle (w_flag s) None (w_orphan s) LStop (w_bad s)).
Proof. exact stop_on_stopped_noop. Qed.

(** a stopped worker can be started again *)
Theorem C13_restart : forall s,
  c_pc s = CIdle -> w_handle s = None ->
  exists s', run wstate wlabel step [LCallStart; LCtl; LCtl; LCtl; LCtl] s = Some s' /\
             w_handle s' = Some WInit /\ w_flag s' = false /\ c_pc s' = CIdle.
Proof. exact restartable. Qed.

(** init once before the first target, target repeatedly until the flag is
    seen, final once after the last target: the worker's own automaton *)
Theorem C13_loop_shape :
  wstep false WTest = Some WTarget /\ wstep false WTarget = Some WTest /\
  wstep true WTest = Some WFinal /\ wstep true WFinal = Some WDone /\ wstep false WInit = Some WTest.
Proof. exact worker_loops_until_flag. Qed.

(** an alive worker can always take its next step (it keeps calling target) *)
Theorem C13_progress : forall s p,
  w_handle s = Some p -> alive p = true -> exists s', step s LWrk = Some s'.
Proof. exact worker_progress. Qed.

(** ** nxslib/thread.py as it is now: the regenerated abstract syntax of ThreadCommon run by
    the PyLite interpreter, with [threading.Event] / [threading.Thread] replaced by the stub
    classes SimEvent / SimThread of the harness prelude (the thread stub's state IS the model's
    worker program counter; a join on a running worker is the stub's "would block").  These
    theorems tie the PER-LINE EFFECTS of model/Worker.v (on which [C13_safe] is proved for every
    interleaving) to the source text: a controller call run while the worker does not move
    equals the model's [LCallStart; LCtl*] / [LCallStop; LCtl*], and the worker loop visits
    exactly the [wstep] sequence with the lines' effects on the callbacks and the flag. *)
Section OnSource.
Import String ZArith PyLite PyLite_tactics Src_all Src_worker_base Src_worker_loop Src_worker_bridge.
Open Scope string_scope.

(** start: for EVERY idle model state and every object representing it *)
Theorem C13_start_refines_src : forall n tgt ini fin nm sc f h orphan last bad,
  let s := mkW CIdle f (option_map fst h) orphan last bad in
  let obj := tc tgt ini fin (handle nm h) (ev f sc) nm in
  abs_obj obj = Some (view s) /\
  exists h' f' s',
    call_method program (3 + n) obj "thread_start" [] = PyLite.Ok (PNone, tc tgt ini fin (handle nm h') (ev f' sc) nm) /\
    model_call LCallStart s = Some s' /\
    c_pc s' = CIdle /\ w_last s' = LStart /\ w_orphan s' = orphan /\
    abs_obj (tc tgt ini fin (handle nm h') (ev f' sc) nm) = Some (view s').
Proof. exact worker_start_refines. Qed.

(** stop, whenever the model's controller gets through (no handle, or a worker that is not alive) *)
Theorem C13_stop_refines_src : forall n tgt ini fin nm sc f h orphan last bad,
  opt_alive (h_pc h) = false ->
  let s := mkW CIdle f (h_pc h) orphan last bad in
  let obj := tc tgt ini fin (handle nm h) (ev f sc) nm in
  abs_obj obj = Some (view s) /\
  exists f' s',
    call_method program (3 + n) obj "thread_stop" [] = PyLite.Ok (PNone, tc tgt ini fin PNone (ev f' sc) nm) /\
    model_call LCallStop s = Some s' /\
    c_pc s' = CIdle /\ w_last s' = LStop /\ w_orphan s' = orphan /\ w_bad s' = bad /\
    abs_obj (tc tgt ini fin PNone (ev f' sc) nm) = Some (view s').
Proof. exact worker_stop_refines. Qed.

(** stop with the worker alive: the interpreted call stands at the join, flag set, handle kept,
    exactly where the model stands at CT4 with its join not enabled *)
Theorem C13_stop_blocks_src : forall n tgt ini fin nm sc f p j orphan last bad,
  alive p = true ->
  let s := mkW CIdle f (Some p) orphan last bad in
  let obj := tc tgt ini fin (handle nm (Some (p, j))) (ev f sc) nm in
  let obj' := tc tgt ini fin (handle nm (Some (p, (j + 1)%Z))) (ev true sc) nm in
  call_func program (3 + n) Src_thread.ThreadCommon_thread_stop [obj] [] = ExcS "BlockingIOError" (self_st obj') /\
  call_method program (3 + n) obj "thread_stop" [] = Exc "BlockingIOError" /\
  exists s1 s3,
    step s LCallStop = Some s1 /\ ctl_steps 3 s1 = Some s3 /\
    c_pc s3 = CT4 /\ step s3 LCtl = None /\ model_call LCallStop s = None /\
    abs_obj obj' = Some (view s3).
Proof. exact worker_stop_blocks. Qed.

(** "start on a running worker and stop on a stopped worker do nothing": literally nothing *)
Theorem C13_start_noop_src : forall n tgt ini fin p j f s nm,
  let obj := tc tgt ini fin (handle nm (Some (p, j))) (ev f s) nm in
  call_method program (3 + n) obj "thread_start" [] = PyLite.Ok (PNone, obj).
Proof. intros. unfold obj. rewrite thread_start_spec. reflexivity. Qed.

Theorem C13_stop_noop_src : forall n tgt ini fin f s nm,
  let obj := tc tgt ini fin (handle nm None) (ev f s) nm in
  call_method program (3 + n) obj "thread_stop" [] = PyLite.Ok (PNone, obj).
Proof. intros. unfold obj. rewrite thread_stop_spec. reflexivity. Qed.

(** the worker loop = the model worker's [wstep] run with the lines' effects *)
Theorem C13_loop_refines_src : forall k x h nm n,
  wrun k WInit x <> OutOfFuel -> (k + 3 <= n)%nat ->
  call_method program n (wk x h nm) "_thread_loop" [] = emb_res h nm (wrun k WInit x).
Proof. exact worker_loop_refines. Qed.

(** init once (iff present), target exactly as often as the flag is seen clear, final once *)
Theorem C13_loop_counts_src : forall k n tc ic fc fl rest h nm,
  (0 <= tc)%Z -> (2 * k + 7 <= n)%nat ->
  let cnt (o : option Z) := option_map (fun c => (c, 0%Z)) o in
  let cnt' (o : option Z) := option_map (fun c => ((c + 1)%Z, 0%Z)) o in
  (forall c, ic = Some c -> (0 <= c)%Z) -> (forall c, fc = Some c -> (0 <= c)%Z) ->
  call_method program n (wk (mkWs (tc, 0%Z) (cnt ic) (cnt fc) fl (repeat false k ++ true :: rest)) h nm) "_thread_loop" [] =
  PyLite.Ok (PNone, wk (mkWs ((tc + Z.of_nat k)%Z, 0%Z) (cnt' ic) (cnt' fc) fl rest) h nm).
Proof. exact thread_loop_counts. Qed.

(** "keeps calling target until stop is requested": with the flag never set the loop never returns *)
Theorem C13_loop_never_stops_src : forall n tc ic fi sc h nm,
  (0 <= tc)%Z -> (forall c, ic = Some c -> (0 <= c)%Z) -> forallb negb sc = true ->
  call_method program (3 + n) (wk (mkWs (tc, 0%Z) (option_map (fun c => (c, 0%Z)) ic) fi false sc) h nm) "_thread_loop" [] = Fuel.
Proof. exact thread_loop_never_stops. Qed.
End OnSource.

Print Assumptions C13_safe.
Print Assumptions C13_after_stop.
Print Assumptions C13_restart.
Print Assumptions C13_start_refines_src.
Print Assumptions C13_stop_refines_src.
Print Assumptions C13_stop_blocks_src.
Print Assumptions C13_loop_refines_src.
Print Assumptions C13_loop_counts_src.
Print Assumptions C13_loop_never_stops_src.

(** C10 - connect and disconnect always terminate, whatever the link does. *)
From Coq Require Import List ZArith Bool.
From NX Require Import Bytes Reasm Reasm_proofs Trans Worker Worker_proofs Handshake Handshake_proofs
  Pinned_comm Pinned_thread.
From Coq Require Import String.
From NX Require PyLite Src_all Src_serialframe_proofs Src_reasm_proofs Src_handshake_base Src_handshake_devinfo Src_handshake_proofs.
Import ListNotations.
Open Scope nat_scope.

(** every oracle (the link may stay silent, answer with the wrong frame or with
    an undecodable one at ANY request of the handshake): connect returns
    Connected, TimeoutError or a decode error after a bounded number of requests
    and one-second time-outs; unless it succeeded nothing is left running *)
Theorem C10_connect_bounded : forall chmax o,
  let '(out, c, st) := connect chmax o in
  reqs st <= 1 + connect_attempts * per_attempt chmax /\
  timeouts st <= connect_attempts * per_attempt chmax /\
  (out = Connected -> c = mkComm true true true true) /\
  (out <> Connected -> c = comm0).
Proof. exact connect_bounded. Qed.

Theorem C10_silent_link : forall chmax,
  connect chmax (fun _ => ASilent) = (TimeoutError, comm0, mkHs (1 + connect_attempts) connect_attempts).
Proof. exact connect_silent. Qed.

Theorem C10_good_link : forall chmax, fst (fst (connect chmax (fun _ => AGood))) = Connected.
Proof. exact connect_good. Qed.

(** the receive routine always returns to the thread loop (never spins), for
    every buffer content and every sequence of reads, so a stop request is
    observed; with any residue of header bytes on a silent link in particular *)
Theorem C10_recv_returns : forall prev l, wf_bytes prev -> wf_link l ->
  (exists fid p prev' l', read_frame prev l = FFrame fid p prev' l') \/
  (exists prev' l', read_frame prev l = FNone prev' l').
Proof. exact read_frame_total. Qed.

(** thread_stop: once the flag is set the worker finishes within three of its
    own steps, so the join is enabled; afterwards no worker is alive *)
Theorem C10_stop_terminates : forall p, alive p = true ->
  exists n, n <= 3 /\
    Nat.iter n (fun o => match o with
                         | Some q => match wstep true q with Some q' => Some q' | None => Some q end
                         | None => None
                         end) (Some p) = Some WDone.
Proof. exact stop_terminates. Qed.

Theorem C10_disconnect_clean : forall c, started c = true -> disconnect c = comm0.
Proof. exact disconnect_clean. Qed.

(** ** the description phase of the handshake, CommHandler._devinfo_get with _nxslib_cmninfo /
    _nxslib_chinfo / _drop_all / _drop_all_frames of comm.py as they are now (regenerated abstract
    syntax, PyLite interpreter; [hcomm w pad dropped q qs] is a handler whose link records what is
    written and whose two frame queues hand out the scripts [q], [qs]: any frames, any
    time-outs, ANY LENGTH).  It always returns - None, a Device, or a decode error - with a
    CONSTANT amount of fuel, consumes a bounded prefix of the scripts whatever they hold
    (the frame drain stops after 256 frames: before the repair F19 it did not, and this theorem
    was false), writes a bounded number of requests, and refines the abstract model above. *)
Section OnSource.
Import PyLite Src_all Src_handshake_base Src_handshake_devinfo Src_handshake_proofs.
Open Scope string_scope.
Open Scope nat_scope.

(** the receive routine returns, whatever is buffered and whatever the link still delivers (so the
    worker gets back to its loop and sees the stop flag): the interpreted _read_frame never runs out
    of fuel above a bound linear in the bytes and chunks in flight *)
Theorem C10_read_frame_returns_src : forall fuel prev l,
  5 + Src_reasm_proofs.measure prev l <= fuel ->
  call_method program fuel (Src_reasm_proofs.ch prev l) "_read_frame" [] <> Fuel.
Proof. exact Src_reasm_proofs.read_frame_no_fuel. Qed.

Theorem C10_devinfo_returns_src : forall n w p d q qs,
  264 <= n ->
  let r := call_method program n (hcomm w p d q qs) "_devinfo_get" [] in
  (exists st', r = PyLite.Ok (PNone, hcomm_of st')) \/
  (exists cm fl rxp acc st', r = PyLite.Ok (dev_of cm fl rxp acc, hcomm_of st')) \/
  r = Exc "struct.error" \/ r = Exc "UnicodeDecodeError".
Proof. exact devinfo_get_returns_const. Qed.

Theorem C10_drain_bounded_src : forall n w p d q qs,
  262 <= n ->
  call_method program n (hcomm w p d q qs) "_drop_all_frames" [] =
  PyLite.Ok (PNone, hcomm w p d (drain q 4) (drain qs 4)).
Proof. exact drop_all_frames_spec_const. Qed.

Theorem C10_drain_consumes_src : forall q c,
  List.length q - List.length (drain q c) <= c + drain_limit.
Proof. exact drain_consumed_bound. Qed.

Theorem C10_devinfo_consumes_src : forall w p d q qs res w' p' d' q' qs',
  devinfo_m w p d q qs = (res, (w', p', d', q', qs')) ->
  (exists pre, q = (pre ++ q')%list /\
     List.length pre <= 1 + (4 + drain_limit) + script_chmax q * chinfo_attempts) /\
  (exists pres, qs = (pres ++ qs')%list /\ List.length pres <= 4 + drain_limit).
Proof. exact devinfo_consumed. Qed.

Theorem C10_devinfo_requests_src : forall w p d q qs res w' p' d' q' qs',
  devinfo_m w p d q qs = (res, (w', p', d', q', qs')) ->
  exists ks, w' = (w ++ ks)%list /\
    List.length ks <= 1 + (if pad_reconf p q then 1 else 0) + script_chmax q * chinfo_attempts.
Proof. exact devinfo_requests. Qed.

Theorem C10_devinfo_is_the_model_src : forall n w p d q qs,
  264 <= n ->
  call_method program n (hcomm w p d q qs) "_devinfo_get" [] = emb_dev_top (devinfo_m w p d q qs).
Proof. exact devinfo_get_spec_const. Qed.
End OnSource.

Print Assumptions C10_connect_bounded.
Print Assumptions C10_recv_returns.
Print Assumptions C10_stop_terminates.
Print Assumptions C10_devinfo_returns_src.
Print Assumptions C10_devinfo_consumes_src.

(** C10 - connect and disconnect always terminate, whatever the link does. *)
From Coq Require Import List ZArith Bool.
From NX Require Import Bytes Reasm Reasm_proofs Trans Worker Worker_proofs Handshake Handshake_proofs
  Pinned_comm Pinned_thread.
Import ListNotations.
Open Scope nat_scope.

(** every oracle (the link may stay silent, answer with the wrong frame or with
    an undecodable one at ANY request of the handshake): connect returns
    Connected, TimeoutError or a decode error after a bounded number of requests
    and one-second time-outs; unless it succeeded nothing is left running *)
Theorem C10_connect_bounded : forall chmax o,
  let '(out, c, st) := connect chmax o in
  reqs st <= 1 + connect_attempts * per_attempt chmax /\
  timeouts st <= connect_attempts * per_attempt chmax /\
  (out = Connected -> c = mkComm true true true true) /\
  (out <> Connected -> c = comm0).
Proof. exact connect_bounded. Qed.

Theorem C10_silent_link : forall chmax,
  connect chmax (fun _ => ASilent) = (TimeoutError, comm0, mkHs (1 + connect_attempts) connect_attempts).
Proof. exact connect_silent. Qed.

Theorem C10_good_link : forall chmax, fst (fst (connect chmax (fun _ => AGood))) = Connected.
Proof. exact connect_good. Qed.

(** the receive routine always returns to the thread loop (never spins), for
    every buffer content and every sequence of reads, so a stop request is
    observed; with any residue of header bytes on a silent link in particular *)
Theorem C10_recv_returns : forall prev l, wf_bytes prev -> wf_link l ->
  (exists fid p prev' l', read_frame prev l = FFrame fid p prev' l') \/
  (exists prev' l', read_frame prev l = FNone prev' l').
Proof. exact read_frame_total. Qed.

(** thread_stop: once the flag is set the worker finishes within three of its
    own steps, so the join is enabled; afterwards no worker is alive *)
Theorem C10_stop_terminates : forall p, alive p = true ->
  exists n, n <= 3 /\
    Nat.iter n (fun o => match o with
                         | Some q => match wstep true q with Some q' => Some q' | None => Some q end
                         | None => None
                         end) (Some p) = Some WDone.
Proof. exact stop_terminates. Qed.

Theorem C10_disconnect_clean : forall c, started c = true -> disconnect c = comm0.
Proof. exact disconnect_clean. Qed.

Print Assumptions C10_connect_bounded.
Print Assumptions C10_recv_returns.
Print Assumptions C10_stop_terminates.

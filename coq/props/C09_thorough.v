(** C09, thorough tier: theorems about the interpreted life-cycle methods on the complete handler
    objects (a chain of symbolic executions that takes about 15 minutes to re-check). *)
From Coq Require Import List ZArith Bool.
From NX Require Bytes PyStruct Crc PyLite PyLite_tactics PyLite_tactics_ext PyLite_tactics_try
  Src_dev Src_iparse Src_parse Src_comm Src_nxscope Src_prelude Src_all
  Src_serialframe_proofs Src_parse_req_lemmas Src_records_proofs Src_config_base Src_config_req Src_config_write
  Src_handshake_base Src_handshake_devinfo Src_handshake_proofs
  Src_lc_base Src_lc_devinfo Src_lifecycle_comm Src_lifecycle_nx Src_lifecycle_nx_ops Src_lifecycle_proofs.
From NX Require Frame Request Info Config Handshake.
From Coq Require String Ascii NArith.
Import ListNotations.

(** ** NxscopeHandler / CommHandler life cycle as it is now: the regenerated abstract syntax of
    nxscope.py and comm.py (connect, disconnect, _start with its clean-up handler, _stop, stream_start /
    stream_stop and the configuration wrappers) run by the PyLite interpreter on the COMPLETE handler
    objects, with the two frame queues scripted (any items, any time-outs, any length), the link a
    recording stub and the two workers recording thread stubs (proofs/Src_lifecycle_*.v, Src_lc_*.v). *)
Section OnSourceLifecycle.
Import String Ascii ZArith NArith Bytes PyStruct Crc PyLite PyLite_tactics PyLite_tactics_ext PyLite_tactics_try
  Src_dev Src_iparse Src_parse Src_comm Src_nxscope Src_prelude Src_all
  Src_serialframe_proofs Src_parse_req_lemmas Src_records_proofs Src_config_base Src_config_req Src_config_write
  Src_handshake_base Src_handshake_devinfo Src_handshake_proofs
  Src_lc_base Src_lc_devinfo Src_lifecycle_comm Src_lifecycle_nx Src_lifecycle_nx_ops Src_lifecycle_proofs.
Open Scope string_scope.
Open Scope Z_scope.
Theorem C09_connect_idempotent_src : forall n started thrd ev w p d dev items sitems rest thr sq ss ovf,
  crest rest -> (2 <= n)%nat ->
  let nx := nxh (PBool true) (gcomm started thrd ev w p d dev items sitems rest) thr sq ss ovf in
  call_method program n nx "connect" [] = PyLite.Ok (dev, nx).
Proof. exact nx_connect_connected_spec. Qed.

Theorem C09_disconnect_idempotent_src : forall n comm thr sq ss ovf,
  (1 <= n)%nat ->
  call_method program n (nxh (PBool false) comm thr sq ss ovf) "disconnect" [] =
  PyLite.Ok (PNone, nxh (PBool false) comm thr sq ss ovf).
Proof. exact nx_disconnect_idle_spec. Qed.

Theorem C09_stream_stop_idle_src : forall n cn comm thr sq ovf,
  (1 <= n)%nat ->
  call_method program n (nxh cn comm thr sq (PBool false) ovf) "stream_stop" [] =
  PyLite.Ok (PNone, nxh cn comm thr sq (PBool false) ovf).
Proof. exact nx_stream_stop_idle_spec. Qed.

Theorem C09_stream_start_started_src : forall n cn comm thr sq ovf,
  (1 <= n)%nat ->
  call_method program n (nxh cn comm thr sq (PBool true) ovf) "stream_start" [] =
  PyLite.Ok (PNone, nxh cn comm thr sq (PBool true) ovf).
Proof. exact nx_stream_start_started_spec. Qed.

Theorem C09_fresh_stream_stop_src : forall thrd ev w p d items sitems thr sq ovf n, let nx := nx_fresh thrd ev w p d items sitems thr sq ovf in
  (1 <= n)%nat -> call_method program n nx "stream_stop" [] = PyLite.Ok (PNone, nx).
Proof. exact fresh_stream_stop. Qed.

Theorem C09_fresh_disconnect_src : forall thrd ev w p d items sitems thr sq ovf n, let nx := nx_fresh thrd ev w p d items sitems thr sq ovf in
  (1 <= n)%nat -> call_method program n nx "disconnect" [] = PyLite.Ok (PNone, nx).
Proof. exact fresh_disconnect. Qed.

Theorem C09_fresh_stream_start_src : forall thrd ev w p d items sitems thr sq ovf n, let nx := nx_fresh thrd ev w p d items sitems thr sq ovf in
  (4 <= n)%nat -> call_method program n nx "stream_start" [] = Exc "AssertionError".
Proof. exact fresh_stream_start_spec. Qed.

Theorem C09_fresh_channels_write_src : forall thrd ev w p d items sitems thr sq ovf n, let nx := nx_fresh thrd ev w p d items sitems thr sq ovf in
  (3 <= n)%nat -> call_method program n nx "channels_write" [] = Exc "AssertionError".
Proof. exact fresh_channels_write_spec. Qed.

Theorem C09_connect_outcomes_src : forall n (r : bool) (s t : Z) ev w p d q qs rest thr sq ss ovf cmax,
  crest rest -> (267 <= n)%nat -> chmax_le cmax q ->
  let s' := if r then s else s + 1 in
  let run := call_func program n NxscopeHandler_connect
               [nxh (PBool false) (gcomm (PBool false) (fake_thread r s t) ev w p d PNone (map item_pv q) (map item_pv qs) rest)
                  thr sq ss ovf] [] in
  (exists cm fl rxp acc w' p' d' q' qs',
     run = PyLite.Ok (dev_of cm fl rxp acc,
             Some (nxh (PBool true)
                     (gcomm (PBool true) (fake_thread true s' t) (ev ++ ["intf.start"]) w' p' d'
                        (dev_of cm fl rxp acc) (map item_pv q') (map item_pv qs')
                        [("_channels", chans_obj (init_cli (map chan_desc_of acc)))])
                     thr (PList (repeat (PList []) (Z.to_nat cm))) ss ovf)) /\
     zlen (map chan_desc_of acc) = cm /\ start_bounds cmax w q qs w' q' qs') \/
  (exists e w' p' d' q' qs',
     In e ["TimeoutError"; "struct.error"; "UnicodeDecodeError"] /\
     run = ExcS e (self_st (nxh (PBool false)
                              (gcomm (PBool false) (fake_thread false s' (t + 1)) (ev ++ ["intf.start"; "intf.stop"])
                                 w' p' d' PNone (map item_pv q') (map item_pv qs') rest)
                              thr sq ss ovf)) /\
     start_bounds cmax w q qs w' q' qs').
Proof. exact nx_connect_outcomes. Qed.

Theorem C09_disconnect_clean_src : forall n r1 s1 t1 ev p d cm fl rxp qs sq w chans its c (strm r2 : bool) s2 t2 ovf nx',
  (267 <= n)%nat ->
  List.length (Config.en_new c) = List.length (Config.en_now c) ->
  List.length (Config.div_new c) = List.length (Config.div_now c) ->
  call_func program n NxscopeHandler_disconnect
    [nxh (PBool true) (ccomm (PBool true) (fake_thread r1 s1 t1) ev w p d cm fl rxp chans its (map item_pv qs) c)
       (fake_thread r2 s2 t2) sq (PBool strm) ovf] [] = PyLite.Ok (PNone, Some nx') ->
  exists l c2 w2 its2 ks,
    set_many_at (Config.en_new c) (range_ix cm) false = inl l /\
    nx' = nxh (PBool false)
            (gcomm (PBool false) (fake_thread false s1 (if r1 then t1 + 1 else t1)) (ev ++ ["intf.stop"])
               w2 p (d + 1) PNone (map item_pv its2) (map item_pv (drain qs 4)) [("_channels", chans_obj c2)])
            (fake_thread (if strm then false else r2) s2 (if strm && r2 then t2 + 1 else t2)) sq (PBool false) ovf /\
    w2 = (w ++ (if strm then [start_req false] else []) ++ ks)%list /\
    write_reqs cm fl (Config.upd_en c l) ks.
Proof. exact nx_disconnect_clean. Qed.

Theorem C09_connect_then_disconnect_src : forall n (r : bool) (s t : Z) ev w p d q qs rest thr sq ovf dev nx1,
  crest rest -> (267 <= n)%nat ->
  call_func program n NxscopeHandler_connect
    [nxh (PBool false) (gcomm (PBool false) (fake_thread r s t) ev w p d PNone (map item_pv q) (map item_pv qs) rest)
       thr sq (PBool false) ovf] [] = PyLite.Ok (dev, Some nx1) ->
  exists cm fl rxp acc w1 p1 d1 q1 qs1,
    let chans := map chan_desc_of acc in
    let off := Config.upd_en (init_cli chans) (map (fun _ => false) (map cd_en chans)) in
    let s' := if r then s else s + 1 in
    dev = dev_of cm fl rxp acc /\
    call_func program n NxscopeHandler_disconnect [nx1] [] =
    match src_write cm fl off chans w1 q1 with
    | WOk c2 chans2 w2 its2 =>
        PyLite.Ok (PNone,
          Some (nxh (PBool false)
                  (gcomm (PBool false) (fake_thread false s' (t + 1)) (ev ++ ["intf.start"; "intf.stop"])
                     w2 p1 (d1 + 1) PNone (map item_pv (drain its2 4)) (map item_pv (drain qs1 4))
                     [("_channels", chans_obj c2)])
                  thr (PList (repeat (PList []) (Z.to_nat cm))) (PBool false) ovf))
    | WExc e c2 chans2 w2 its2 =>
        ExcS e (self_st (nxh (PBool true)
                           (ccomm (PBool true) (fake_thread true s' t) (ev ++ ["intf.start"]) w2 p1 d1 cm fl rxp chans2 its2
                              (map item_pv qs1) c2)
                           thr (PList (repeat (PList []) (Z.to_nat cm))) (PBool false) ovf))
    | WUnsup x => Unsupported x
    end.
Proof. exact nx_connect_then_disconnect. Qed.

Theorem C09_stop_refines_model_src : forall n (b r : bool) s t ev w p d dev q qs rest self',
  crest rest -> (266 <= n)%nat ->
  let self := gcomm (PBool b) (fake_thread r s t) ev w p d dev (map item_pv q) (map item_pv qs) rest in
  call_method program n self "disconnect" [] = PyLite.Ok (PNone, self') ->
  comm_view self' = Handshake.disconnect (comm_view self).
Proof. exact stop_refines_disconnect. Qed.

Theorem C09_start_refines_model_src : forall n (r : bool) (s t : Z) ev w p d q qs rest chmax o,
  crest rest -> (265 <= n)%nat ->
  let self := gcomm (PBool false) (fake_thread r s t) ev w p d PNone (map item_pv q) (map item_pv qs) rest in
  let run := call_func program n CommHandler__start [self] [] in
  (exists out, run_outcome run = Some out) /\
  (run_outcome run = Some (fst (fst (Handshake.connect chmax o))) ->
   comm_view (run_self self run) = snd (fst (Handshake.connect chmax o))).
Proof. exact start_refines_connect. Qed.

Theorem C09_fresh_agrees_with_model_src : forall n thrd ev w p d items sitems thr sq ovf a b k f args,
  (4 <= n)%nat -> source_call k = Some (f, args) ->
  let nx := nx_fresh thrd ev w p d items sitems thr sq ovf in
  let run := call_func program n f (nx :: args) [] in
  ret_of run = Some (snd (Handshake.nx_step (Handshake.nx0 a b) k)) /\
  run_self nx run = nx /\
  fst (Handshake.nx_step (Handshake.nx0 a b) k) = Handshake.nx0 a b.
Proof. exact fresh_agrees_with_model. Qed.

End OnSourceLifecycle.

Print Assumptions C09_connect_idempotent_src.
Print Assumptions C09_disconnect_idempotent_src.
Print Assumptions C09_stream_stop_idle_src.
Print Assumptions C09_stream_start_started_src.
Print Assumptions C09_fresh_stream_stop_src.
Print Assumptions C09_fresh_disconnect_src.
Print Assumptions C09_fresh_stream_start_src.
Print Assumptions C09_fresh_channels_write_src.
Print Assumptions C09_connect_outcomes_src.
Print Assumptions C09_disconnect_clean_src.
Print Assumptions C09_connect_then_disconnect_src.
Print Assumptions C09_stop_refines_model_src.
Print Assumptions C09_start_refines_model_src.
Print Assumptions C09_fresh_agrees_with_model_src.

(** C17 - write padding only appends zeros and is invisible to the device. *)
From Coq Require Import String ZArith List.
From NX Require Import Bytes Frame Wire Pad Pad_proofs Dispatch_proofs C17_proofs.
From NX Require PyLite Src_all Src_pad_proofs.
Open Scope Z_scope.

(** every padding value p >= 0 (in particular 0..255), every byte string:
    the write is the data followed by [pad_count p |d|] zero bytes *)
Theorem C17_appends_zeros : forall p d,
  0 <= p -> data_align p d = d ++ repeat 0%N (Z.to_nat (pad_count p (zlen d))).
Proof. exact data_align_spec. Qed.

(** that count is 0 for p = 0, and for p > 0 it is the unique k < p that
    makes the length a multiple of p *)
Theorem C17_count : forall p len,
  0 <= p -> 0 <= len ->
  let k := pad_count p len in
  0 <= k /\ (p = 0 -> k = 0) /\
  (0 < p -> k < p /\ (len + k) mod p = 0 /\
            forall k', 0 <= k' < p -> (len + k') mod p = 0 -> k' = k).
Proof. exact pad_count_props. Qed.

(** the device-side receiver reacts to a padded request exactly as to the
    unpadded one: for every frame the library can build (any id, any payload) *)
Theorem C17_invisible : forall pad fid p r,
  0 <= pad -> wf_bytes p ->
  frame_create fid p = Ok r ->
  recv_dispatch (data_align pad r) = recv_dispatch r.
Proof. exact padded_request_same. Qed.

(** a write consisting only of padding triggers no reaction *)
Theorem C17_padding_only : forall k, recv_dispatch (repeat 0%N k) = DNone.
Proof. exact dispatch_padding_only. Qed.

(** ** CommInterfaceCommon.data_align / write_padding of intf/iintf.py as they are now: the
    regenerated abstract syntax run by the PyLite interpreter equals the model for EVERY
    padding value (negative ones included: nothing is appended) and every byte string *)
Section OnSource.
Import ListNotations PyLite Src_all Src_pad_proofs.
Open Scope string_scope.
Open Scope list_scope.

Theorem C17_data_align_src : forall n r w p data,
  call_method program (1 + n) (ci r w p) "data_align" [PBytes data] =
  PyLite.Ok (PBytes (data_align p data), ci r w p).
Proof. exact data_align_spec. Qed.

(** setting the padding through the property setter, aligning, reading the property back *)
Theorem C17_set_padding_src : forall n r w p0 p data,
  call_function program (2 + n) "pad_align" [ci r w p0; PInt p; PBytes data] =
  PyLite.Ok (PList [PBytes (data_align p data); PInt p]).
Proof. exact pad_align_spec. Qed.
End OnSource.

Example C17_example :
  data_align 16 [85; 6; 0; 2; 91; 156]%N = [85; 6; 0; 2; 91; 156]%N ++ repeat 0%N 10 /\
  recv_dispatch (data_align 16 [85; 6; 0; 2; 91; 156]%N) = DCall RCmninfo [].
Proof. split; vm_compute; reflexivity. Qed.

Print Assumptions C17_appends_zeros.
Print Assumptions C17_count.
Print Assumptions C17_invisible.
Print Assumptions C17_padding_only.
Print Assumptions C17_data_align_src.

(** C06 - the device description read by the client equals the device's configuration. *)
From Coq Require Import String ZArith List.
From NX Require Import Bytes Frame Wire Request Info Utf8 Info_proofs Records Records_proofs
  Pinned_parse Pinned_parserecv Pinned_dev.
From NX Require PyLite Src_all Src_serialframe_proofs Src_frame_corollaries Src_info_proofs Src_info_corollaries.
Open Scope list_scope.
Open Scope Z_scope.

(** common info: every value 0..255 of the three one-byte fields *)
Theorem C06_cmninfo : forall chmax flags rxpadding,
  u8 chmax -> u8 flags -> u8 rxpadding ->
  exists payload,
    frame_cmninfo_encode chmax flags rxpadding = Ok (wire 2 payload) /\
    frame_decode (wire 2 payload) = Ok (2, payload) /\
    frame_cmninfo_decode 2 payload = Ok (Some (chmax, flags, rxpadding)).
Proof. exact cmninfo_roundtrip. Qed.

(** channel info: every one-byte field, every NUL-free text that fits a frame,
    followed by any number (k >= 0) of NUL terminators *)
Theorem C06_chinfo : forall c text k,
  cfg_ok c -> c_name c = text ++ repeat 0%N k ->
  valid_text text -> Forall (fun x => x <> 0%N) text -> name_fits (c_name c) ->
  exists payload,
    frame_chinfo_encode c = Ok (wire 3 payload) /\
    frame_decode (wire 3 payload) = Ok (3, payload) /\
    frame_chinfo_decode 3 payload =
      Ok (Some (mkChan (c_en c) (c_type c) (c_vdim c) (c_div c) (c_mlen c) text)).
Proof. exact chinfo_roundtrip. Qed.

(** acknowledgement: success exactly when r = 0, r preserved otherwise *)
Theorem C06_ack : forall r, i32 r ->
  exists payload,
    frame_ack_encode r = Ok (wire 4 payload) /\
    frame_decode (wire 4 payload) = Ok (4, payload) /\
    frame_ack_decode 4 payload = Ok (Some (if r =? 0 then (true, 0) else (false, r))).
Proof. exact ack_roundtrip. Qed.

(** derived attributes of the record the client builds from the decoded values *)
Theorem C06_derived_channel : forall typ chan vdim nm en div mlen,
  0 <= typ < 256 ->
  let r := chan_new chan typ vdim nm en div mlen in
  get r "_type"%string = Some (PInt typ) /\
  get r "dtype"%string = Some (PInt (typ mod 32)) /\
  get r "critical"%string = Some (PBool (128 <=? typ)) /\
  get r "type_res"%string = Some (PInt ((typ / 32 mod 4) * 32)) /\
  get r "is_valid"%string = Some (PBool (negb (typ mod 32 =? 0))) /\
  get r "is_numerical"%string =
    Some (PBool (negb ((typ mod 32 =? 0) || (typ mod 32 =? 1) || (typ mod 32 =? 18) || (typ mod 32 =? 19)))).
Proof. exact chan_derived. Qed.

Theorem C06_derived_device : forall chmax flags rx,
  0 <= flags < 256 ->
  let r := dev_new chmax flags rx in
  get r "chmax"%string = Some (PInt chmax) /\ get r "flags"%string = Some (PInt flags) /\
  get r "rxpadding"%string = Some (PInt rx) /\
  get r "div_supported"%string = Some (PBool (Z.odd flags)) /\
  get r "ack_supported"%string = Some (PBool (Z.odd (flags / 2))).
Proof. exact dev_derived. Qed.

(** ** end to end on the source as it is now: the device-side encoder of parserecv.py, the
    frame codec of serialframe.py and the client-side decoder of parse.py, each as the
    regenerated abstract syntax run by the PyLite interpreter (any fuel above the constant).
    [dev_obj] / [emb_chan] are the Device / DeviceChannel objects exactly as the interpreted
    constructors build them (the construct_ theorems of Src_info_proofs), [cmninfo_obj] / [ack_obj] the
    ParseCmninfo / ParseAck records. *)
Section OnSource.
Import PyLite Src_all Src_serialframe_proofs Src_frame_corollaries Src_info_proofs Src_info_corollaries.
Open Scope string_scope.
Open Scope list_scope.

Theorem C06_cmninfo_src : forall n cbv chmax flags rxpadding chans,
  u8 chmax -> u8 flags -> u8 rxpadding ->
  exists payload,
    call_method program (3 + n) (pr cbv) "frame_cmninfo_encode" [dev_obj chmax flags rxpadding chans] =
      PyLite.Ok (PBytes (wire 2 payload), pr cbv) /\
    call_method program (3 + n) sf "frame_decode" [PBytes (wire 2 payload)] =
      PyLite.Ok (frame_obj (enum_id 2) payload noerr, sf) /\
    call_method program (1 + n) pa "frame_cmninfo_decode" [frame_obj (enum_id 2) payload noerr] =
      PyLite.Ok (cmninfo_obj (chmax, flags, rxpadding), pa).
Proof. exact src_cmninfo_end_to_end. Qed.

Theorem C06_chinfo_src : forall n cbv chan chan' c (text : list N) k,
  cfg_ok c -> Info.c_name c = text ++ repeat 0%N k ->
  valid_text text -> Forall (fun x => x <> 0%N) text -> name_fits (Info.c_name c) ->
  exists payload,
    call_method program (3 + n) (pr cbv) "frame_chinfo_encode" [emb_chan chan c] =
      PyLite.Ok (PBytes (wire 3 payload), pr cbv) /\
    call_method program (3 + n) sf "frame_decode" [PBytes (wire 3 payload)] =
      PyLite.Ok (frame_obj (enum_id 3) payload noerr, sf) /\
    call_method program (5 + n) pa "frame_chinfo_decode" [frame_obj (enum_id 3) payload noerr; PInt chan'] =
      PyLite.Ok (emb_chan chan' (Info.mkChan (Info.c_en c) (Info.c_type c) (Info.c_vdim c) (Info.c_div c) (Info.c_mlen c) text), pa).
Proof. exact src_chinfo_end_to_end. Qed.

Theorem C06_ack_src : forall n cbv r, i32 r ->
  exists payload,
    call_method program (2 + n) (pr cbv) "frame_ack_encode" [PInt r] =
      PyLite.Ok (PBytes (wire 4 payload), pr cbv) /\
    call_method program (3 + n) sf "frame_decode" [PBytes (wire 4 payload)] =
      PyLite.Ok (frame_obj (enum_id 4) payload noerr, sf) /\
    call_method program (1 + n) pa "frame_ack_decode" [frame_obj (enum_id 4) payload noerr] =
      PyLite.Ok (ack_obj (if (r =? 0)%Z then (true, 0) else (false, r)), pa).
Proof. exact src_ack_end_to_end. Qed.

(** the decoders are the model on EVERY frame (wrong ids, short and malformed payloads, None) *)
Theorem C06_chinfo_decode_refines_src : forall n fid data chan,
  call_method program (5 + n) pa "frame_chinfo_decode"
    [frame_obj (enum_id fid) data (perr_obj "NOERR" 0); PInt chan] =
  emb_opt (emb_chan chan) pa (Info.frame_chinfo_decode fid data).
Proof. exact frame_chinfo_decode_spec. Qed.

(** the client's channel record as the interpreted DeviceChannel constructor builds it:
    derived attributes for EVERY type value *)
Theorem C06_channel_record_src : forall n chan typ vdim name en div mlen,
  construct program (4 + n) "DeviceChannel" [PInt chan; PInt typ; PInt vdim; PStr name; en; PInt div; PInt mlen] =
  PyLite.Ok (chan_obj chan typ vdim name (truthy en) div mlen).
Proof. exact construct_DeviceChannel. Qed.
End OnSource.

Example C06_example :
  frame_chinfo_decode 3 [1; 130; 2; 200; 4; 197; 188; 0]%N =
    Ok (Some (mkChan true 130 2 200 4 [380%N])).
Proof. vm_compute. reflexivity. Qed.

Print Assumptions C06_cmninfo.
Print Assumptions C06_chinfo.
Print Assumptions C06_ack.
Print Assumptions C06_derived_channel.
Print Assumptions C06_derived_device.
Print Assumptions C06_chinfo_src.
Print Assumptions C06_cmninfo_src.
Print Assumptions C06_ack_src.

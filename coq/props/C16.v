(** C16 - simulated devices are independent of each other and restart cleanly. *)
From Coq Require Import List ZArith Bool.
From NX Require Import Dummy Dummy_proofs Pinned_dummy Pinned_dev.
Import ListNotations.
Open Scope nat_scope.

(** frame rule: every sequence of requests, samples and start/stop cycles on one
    instance leaves every channel object of an instance with disjoint objects
    exactly as it was (enable state, divider, generator state) *)
Theorem C16_independence : forall ops st a b,
  disjoint (locs b) (locs a) ->
  forall j, In j (locs b) -> nth_error (fst (drun st a ops)) j = nth_error st j.
Proof. exact independence. Qed.

(** instances built by the (regenerated) constructor own disjoint objects, in
    every combination of default / custom definitions *)
Theorem C16_default_default : forall n st, n <= length st ->
  let '(st1, a) := mk_default n st in
  let '(st2, b) := mk_default n st1 in
  disjoint (locs a) (locs b) /\ disjoint (locs b) (locs a).
Proof. exact default_default_disjoint. Qed.

Theorem C16_default_custom : forall n objs st, n <= length st ->
  let '(st1, a) := mk_default n st in
  let '(st2, b) := mk_custom objs st1 in
  disjoint (locs a) (locs b) /\ disjoint (locs b) (locs a).
Proof. exact default_custom_disjoint. Qed.

Theorem C16_custom_custom : forall o1 o2 st,
  let '(st1, a) := mk_custom o1 st in
  let '(st2, b) := mk_custom o2 st1 in
  disjoint (locs a) (locs b) /\ disjoint (locs b) (locs a).
Proof. exact custom_custom_disjoint. Qed.

(** stopping and starting resets every generator of the instance (and only the
    generators), with nothing left in the read queue *)
Theorem C16_restart : forall st a ops,
  let '(st1, a1) := drun st a (ops ++ [DStop; DStart]) in
  qread a1 = [] /\ started_f a1 = true /\
  forall l c, In l (locs a1) -> nth_error (fst (drun st a ops)) l = Some c ->
    exists c', nth_error st1 l = Some c' /\ o_gen c' = 0 /\ o_en c' = o_en c /\ o_div c' = o_div c.
Proof. exact restart_resets. Qed.

Print Assumptions C16_independence.
Print Assumptions C16_default_default.
Print Assumptions C16_restart.

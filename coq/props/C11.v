(** C11 - a rejected or unacknowledged request never advances the client's view. *)
From Coq Require Import ZArith List Bool.
From NX Require Import Config Config_proofs.
Import ListNotations.
Open Scope Z_scope.

(** a write whose requests were rejected, lost, or whose acknowledgements were
    lost leaves the state the client reports where it was *)
Theorem C11_view_stays : forall c d a1 a2,
  d_ack_supported d = true -> a1 <> Ack -> a2 <> Ack ->
  let '(c', _) := write c d a1 a2 in
  en_now c' = en_now c /\ div_now c' = div_now c.
Proof. exact failed_request_keeps_view. Qed.

(** after ANY history with ANY choice per request of acknowledging, rejecting
    with any code, losing the request or losing the acknowledgement: a later
    write that the device acknowledges brings device and client to the
    requested state *)
Theorem C11_converges : forall s0 ops a1 a2,
  Inv s0 ->
  let '(c, d) := run s0 ops in
  acked d a1 -> acked d a2 ->
  let '(c', d') := write c d a1 a2 in
  d_en d' = en_new c /\ en_now c' = en_new c /\
  (d_div_supported d = true -> d_div d' = div_new c /\ div_now c' = div_new c) /\
  (d_div_supported d = false -> d_div d' = d_div d /\ div_now c' = div_now c).
Proof. exact write_converges. Qed.

Theorem C11_invariant : forall ops s, Inv s -> Inv (run s ops).
Proof. exact run_inv. Qed.

(** the history that defeated the unrepaired code (F16): lost ACK, then a
    single-channel difference *)
Example C11_example :
  let s := run (connected [false; false] [0; 0] false true)
               [OpEnable [0%nat]; OpWrite Ack LostAck; OpDisable [0%nat]; OpEnable [1%nat]; OpWrite Ack Ack] in
  d_en (snd s) = [false; true] /\ en_now (fst s) = [false; true] /\
  d_log (snd s) = [RqEnSingle 0%nat true; RqEnVec [false; true]].
Proof. repeat split; reflexivity. Qed.

Print Assumptions C11_view_stays.
Print Assumptions C11_converges.

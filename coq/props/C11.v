(** C11 - a rejected or unacknowledged request never advances the client's view. *)
From Coq Require Import ZArith List Bool String.
From NX Require Import Config Config_proofs.
From NX Require Bytes Frame Request Request_proofs PyLite Src_all Src_records_proofs Src_config_base Src_config_req Src_config_write Src_config_proofs.
Import ListNotations.
Open Scope Z_scope.

(** a write whose requests were rejected, lost, or whose acknowledgements were
    lost leaves the state the client reports where it was *)
Theorem C11_view_stays : forall c d a1 a2,
  d_ack_supported d = true -> a1 <> Ack -> a2 <> Ack ->
  let '(c', _) := write c d a1 a2 in
  en_now c' = en_now c /\ div_now c' = div_now c.
Proof. exact failed_request_keeps_view. Qed.

(** after ANY history with ANY choice per request of acknowledging, rejecting
    with any code, losing the request or losing the acknowledgement: a later
    write that the device acknowledges brings device and client to the
    requested state *)
Theorem C11_converges : forall s0 ops a1 a2,
  Inv s0 ->
  let '(c, d) := run s0 ops in
  acked d a1 -> acked d a2 ->
  let '(c', d') := write c d a1 a2 in
  d_en d' = en_new c /\ en_now c' = en_new c /\
  (d_div_supported d = true -> d_div d' = div_new c /\ div_now c' = div_new c) /\
  (d_div_supported d = false -> d_div d' = d_div d /\ div_now c' = div_now c).
Proof. exact write_converges. Qed.

Theorem C11_invariant : forall ops s, Inv s -> Inv (run s ops).
Proof. exact run_inv. Qed.

(** the history that defeated the unrepaired code (F16): lost ACK, then a
    single-channel difference *)
(** ** the client side of the model IS comm.py as it is now: the regenerated abstract syntax of
    the configuration methods of CommHandler, run by the PyLite interpreter on a handler whose
    link records what is written ([w]) and whose frame queue hands out scripted answers
    (stubs of tools/harness/prelude_py.py, translated with the rest; [answer_items]: Ack = an
    ACK frame with code 0, Nack r = an ACK frame with code r, lost request / lost ack = a
    time-out; nothing is awaited when the device has no ACK support).  [comm c dev w q] is
    the handler whose DCommChannelsData is the model client [c] and whose own mirror of the
    device is [dev]; of the model's device only the two capability flags are used - what the
    bytes written mean AT the device is C05. *)
Section OnSource.
Import PyLite Src_all Src_records_proofs Src_config_base Src_config_req Src_config_write Src_config_proofs.
Open Scope string_scope.
Open Scope list_scope.

(** setters touch nothing but the requested vector: nothing is written, the queue is untouched *)
Theorem C11_enable_src : forall n c d dev w q cs,
  in_range (en_new c) cs ->
  call_method program (1 + n) (comm c dev w q) "ch_enable" [PList (map PInt (map Z.of_nat cs))] =
  PyLite.Ok (PNone, comm (fst (step (c, d) (OpEnable cs))) dev w q).
Proof. exact ch_enable_model. Qed.

Theorem C11_default_src : forall n c d flags rxp chans w q,
  List.length (en_new c) = List.length chans ->
  call_method program (3 + n) (comm c (dev_obj flags rxp chans) w q) "channels_default_cfg" [] =
  PyLite.Ok (PNone, comm (fst (step (c, d) OpDefault)) (dev_obj flags rxp chans) w q).
Proof. exact channels_default_cfg_model. Qed.

(** channels_write: the requests chosen by the model (single / full vector, divider first and only
    if supported) are written as the bytes of Request.frame_div / frame_enable, the answers are
    consumed, the view and the mirror advance exactly when the model says so - for every
    device size 1..255, every buffered state, every pair of answers *)
Theorem C11_write_src : forall n c d flags rxp chans w a1 a2 rest,
  List.length (en_new c) = List.length (en_now c) ->
  List.length (div_new c) = List.length (div_now c) ->
  List.length (en_new c) = List.length chans -> List.length (div_new c) = List.length chans ->
  1 <= Bytes.zlen chans <= 255 -> Request_proofs.all_u8 (div_new c) ->
  d_div_supported d = div_sup flags -> d_ack_supported d = ack_sup flags ->
  wf_answer a1 -> wf_answer a2 ->
  exists b1 b2,
    Request.frame_div (div_request c) (Bytes.zlen chans) = Frame.Ok b1 /\
    Request.frame_enable (en_request c) (Bytes.zlen chans) = Frame.Ok b2 /\
    call_method program (6 + n)
      (comm c (dev_obj flags rxp chans) w
         (map item_pv ((if div_sup flags then answer_items (ack_sup flags) a1 else [])
                         ++ answer_items (ack_sup flags) a2 ++ rest)))
      "channels_write" [] =
    PyLite.Ok (PNone,
               comm (fst (step (c, d) (OpWrite a1 a2)))
                    (dev_obj flags rxp
                       (mirror_en (ack_ok (ack_sup flags) a2)
                          (if div_sup flags then mirror_div (ack_ok (ack_sup flags) a1) chans (div_new c) else chans)
                          (en_new c)))
                    (w ++ (if div_sup flags then [b1; b2] else [b2])) (map item_pv rest)).
Proof. exact channels_write_model. Qed.
End OnSource.

Example C11_example :
  let s := run (connected [false; false] [0; 0] false true)
               [OpEnable [0%nat]; OpWrite Ack LostAck; OpDisable [0%nat]; OpEnable [1%nat]; OpWrite Ack Ack] in
  d_en (snd s) = [false; true] /\ en_now (fst s) = [false; true] /\
  d_log (snd s) = [RqEnSingle 0%nat true; RqEnVec [false; true]].
Proof. repeat split; reflexivity. Qed.

Print Assumptions C11_view_stays.
Print Assumptions C11_converges.
Print Assumptions C11_write_src.

(** C07 - buffered channel configuration reaches the device exactly at write time. *)
From Coq Require Import ZArith List Bool.
From NX Require Import Config Config_proofs.
Import ListNotations.
Open Scope Z_scope.

(** every history of configuration calls and writes (any answers) keeps the
    invariant: vectors have the device's size; when the client believes it is in
    sync, the device's state equals the acknowledged state *)
Theorem C07_invariant : forall ops s, Inv s -> Inv (run s ops).
Proof. exact run_inv. Qed.

Theorem C07_initial : forall en dv ds acs, Inv (connected en dv ds acs).
Proof. exact Inv_connected. Qed.

(** no call other than a write changes anything at the device *)
Theorem C07_no_early_effect : forall s o, is_write o = false -> snd (step s o) = snd s.
Proof. exact nonwrite_device_unchanged. Qed.

(** after ANY history, once a write whose requests were acknowledged (or the
    device has no ACK support) has returned: device = requested = reported;
    dividers only if the device advertises divider support *)
Theorem C07_write_syncs : forall s0 ops a1 a2,
  Inv s0 ->
  let '(c, d) := run s0 ops in
  acked d a1 -> acked d a2 ->
  let '(c', d') := write c d a1 a2 in
  d_en d' = en_new c /\ en_now c' = en_new c /\
  (d_div_supported d = true -> d_div d' = div_new c /\ div_now c' = div_new c) /\
  (d_div_supported d = false -> d_div d' = d_div d /\ div_now c' = div_now c).
Proof. exact write_converges. Qed.

(** writing again without new requests changes nothing *)
Theorem C07_idempotent : forall c d a1 a2 a3 a4,
  Inv (c, d) -> acked d a1 -> acked d a2 ->
  let '(c1, d1) := write c d a1 a2 in
  acked d1 a3 -> acked d1 a4 ->
  let '(c2, d2) := write c1 d1 a3 a4 in
  d_en d2 = d_en d1 /\ d_div d2 = d_div d1 /\ en_now c2 = en_now c1 /\ div_now c2 = div_now c1.
Proof. exact write_idempotent. Qed.

(** no divider request ever reaches a device that does not advertise divider support *)
Theorem C07_no_div_when_unsupported : forall ops s,
  d_div_supported (snd s) = false ->
  forallb (fun r => negb (is_div_req r)) (d_log (snd s)) = true ->
  forallb (fun r => negb (is_div_req r)) (d_log (snd (run s ops))) = true.
Proof. exact never_div_when_unsupported. Qed.

Example C07_example :
  let s := run (connected [false; false; false] [0; 0; 0] true true)
               [OpEnable [1%nat]; OpDivider [0%nat; 2%nat] 200; OpWrite Ack Ack] in
  d_en (snd s) = [false; true; false] /\ d_div (snd s) = [200; 0; 200] /\
  d_log (snd s) = [RqDivVec [200; 0; 200]; RqEnSingle 1%nat true].
Proof. repeat split; reflexivity. Qed.

Print Assumptions C07_invariant.
Print Assumptions C07_no_early_effect.
Print Assumptions C07_write_syncs.
Print Assumptions C07_idempotent.
Print Assumptions C07_no_div_when_unsupported.

(** C07 - buffered channel configuration reaches the device exactly at write time. *)
From Coq Require Import ZArith List Bool String.
From NX Require Import Config Config_proofs.
From NX Require Bytes Frame Request Request_proofs PyLite Src_all Src_records_proofs Src_config_base Src_config_req Src_config_write Src_config_proofs.
Import ListNotations.
Open Scope Z_scope.

(** every history of configuration calls and writes (any answers) keeps the
    invariant: vectors have the device's size; when the client believes it is in
    sync, the device's state equals the acknowledged state *)
Theorem C07_invariant : forall ops s, Inv s -> Inv (run s ops).
Proof. exact run_inv. Qed.

Theorem C07_initial : forall en dv ds acs, Inv (connected en dv ds acs).
Proof. exact Inv_connected. Qed.

(** no call other than a write changes anything at the device *)
Theorem C07_no_early_effect : forall s o, is_write o = false -> snd (step s o) = snd s.
Proof. exact nonwrite_device_unchanged. Qed.

(** after ANY history, once a write whose requests were acknowledged (or the
    device has no ACK support) has returned: device = requested = reported;
    dividers only if the device advertises divider support *)
Theorem C07_write_syncs : forall s0 ops a1 a2,
  Inv s0 ->
  let '(c, d) := run s0 ops in
  acked d a1 -> acked d a2 ->
  let '(c', d') := write c d a1 a2 in
  d_en d' = en_new c /\ en_now c' = en_new c /\
  (d_div_supported d = true -> d_div d' = div_new c /\ div_now c' = div_new c) /\
  (d_div_supported d = false -> d_div d' = d_div d /\ div_now c' = div_now c).
Proof. exact write_converges. Qed.

(** writing again without new requests changes nothing *)
Theorem C07_idempotent : forall c d a1 a2 a3 a4,
  Inv (c, d) -> acked d a1 -> acked d a2 ->
  let '(c1, d1) := write c d a1 a2 in
  acked d1 a3 -> acked d1 a4 ->
  let '(c2, d2) := write c1 d1 a3 a4 in
  d_en d2 = d_en d1 /\ d_div d2 = d_div d1 /\ en_now c2 = en_now c1 /\ div_now c2 = div_now c1.
Proof. exact write_idempotent. Qed.

(** no divider request ever reaches a device that does not advertise divider support *)
Theorem C07_no_div_when_unsupported : forall ops s,
  d_div_supported (snd s) = false ->
  forallb (fun r => negb (is_div_req r)) (d_log (snd s)) = true ->
  forallb (fun r => negb (is_div_req r)) (d_log (snd (run s ops))) = true.
Proof. exact never_div_when_unsupported. Qed.

(** ** the client side of the model IS comm.py as it is now: the regenerated abstract syntax of
    the configuration methods of CommHandler, run by the PyLite interpreter on a handler whose
    link records what is written ([w]) and whose frame queue hands out scripted answers
    (stubs of tools/harness/prelude_py.py, translated with the rest; [answer_items]: Ack = an
    ACK frame with code 0, Nack r = an ACK frame with code r, lost request / lost ack = a
    time-out; nothing is awaited when the device has no ACK support).  [comm c dev w q] is
    the handler whose DCommChannelsData is the model client [c] and whose own mirror of the
    device is [dev]; of the model's device only the two capability flags are used - what the
    bytes written mean AT the device is C05. *)
Section OnSource.
Import PyLite Src_all Src_records_proofs Src_config_base Src_config_req Src_config_write Src_config_proofs.
Open Scope string_scope.
Open Scope list_scope.

(** setters touch nothing but the requested vector: nothing is written, the queue is untouched *)
Theorem C07_enable_src : forall n c d dev w q cs,
  in_range (en_new c) cs ->
  call_method program (1 + n) (comm c dev w q) "ch_enable" [PList (map PInt (map Z.of_nat cs))] =
  PyLite.Ok (PNone, comm (fst (step (c, d) (OpEnable cs))) dev w q).
Proof. exact ch_enable_model. Qed.

Theorem C07_default_src : forall n c d flags rxp chans w q,
  List.length (en_new c) = List.length chans ->
  call_method program (3 + n) (comm c (dev_obj flags rxp chans) w q) "channels_default_cfg" [] =
  PyLite.Ok (PNone, comm (fst (step (c, d) OpDefault)) (dev_obj flags rxp chans) w q).
Proof. exact channels_default_cfg_model. Qed.

(** channels_write: the requests chosen by the model (single / full vector, divider first and only
    if supported) are written as the bytes of Request.frame_div / frame_enable, the answers are
    consumed, the view and the mirror advance exactly when the model says so - for every
    device size 1..255, every buffered state, every pair of answers *)
Theorem C07_write_src : forall n c d flags rxp chans w a1 a2 rest,
  List.length (en_new c) = List.length (en_now c) ->
  List.length (div_new c) = List.length (div_now c) ->
  List.length (en_new c) = List.length chans -> List.length (div_new c) = List.length chans ->
  1 <= Bytes.zlen chans <= 255 -> Request_proofs.all_u8 (div_new c) ->
  d_div_supported d = div_sup flags -> d_ack_supported d = ack_sup flags ->
  wf_answer a1 -> wf_answer a2 ->
  exists b1 b2,
    Request.frame_div (div_request c) (Bytes.zlen chans) = Frame.Ok b1 /\
    Request.frame_enable (en_request c) (Bytes.zlen chans) = Frame.Ok b2 /\
    call_method program (6 + n)
      (comm c (dev_obj flags rxp chans) w
         (map item_pv ((if div_sup flags then answer_items (ack_sup flags) a1 else [])
                         ++ answer_items (ack_sup flags) a2 ++ rest)))
      "channels_write" [] =
    PyLite.Ok (PNone,
               comm (fst (step (c, d) (OpWrite a1 a2)))
                    (dev_obj flags rxp
                       (mirror_en (ack_ok (ack_sup flags) a2)
                          (if div_sup flags then mirror_div (ack_ok (ack_sup flags) a1) chans (div_new c) else chans)
                          (en_new c)))
                    (w ++ (if div_sup flags then [b1; b2] else [b2])) (map item_pv rest)).
Proof. exact channels_write_model. Qed.
End OnSource.

Example C07_example :
  let s := run (connected [false; false; false] [0; 0; 0] true true)
               [OpEnable [1%nat]; OpDivider [0%nat; 2%nat] 200; OpWrite Ack Ack] in
  d_en (snd s) = [false; true; false] /\ d_div (snd s) = [200; 0; 200] /\
  d_log (snd s) = [RqDivVec [200; 0; 200]; RqEnSingle 1%nat true].
Proof. repeat split; reflexivity. Qed.

Print Assumptions C07_invariant.
Print Assumptions C07_no_early_effect.
Print Assumptions C07_write_syncs.
Print Assumptions C07_idempotent.
Print Assumptions C07_no_div_when_unsupported.
Print Assumptions C07_write_src.

(** C02 - only length-consistent, CRC-valid frames are ever accepted. *)
From Coq Require Import String ZArith List.
From NX Require Import Bytes Frame Wire ErrClass Dispatch_proofs C02_proofs C02_detect.
From NX Require PyLite Src_all Src_serialframe_proofs Src_frame_corollaries Src_parserecv_proofs Src_request_corollaries.
Open Scope Z_scope.

(** client decoder: accepted iff SOF, known id, 6 <= declared length <= bytes
    supplied, CRC over exactly the declared length is 0; payload = bytes between *)
Theorem C02_decode_iff : forall d fid p,
  wf_bytes d ->
  (frame_decode d = Ok (fid, p) <-> (0 <= fid /\ accepts d (Z.to_N fid) p)).
Proof. exact frame_decode_iff. Qed.

Theorem C02_decode_total : forall d, wf_bytes d ->
  (exists fid p, frame_decode d = Ok (fid, p)) \/
  frame_decode d = Err EHDR \/ frame_decode d = Err EFOOT.
Proof. exact frame_decode_total. Qed.

(** device-side dispatcher: a callback fires only on a string that, cropped at
    its first SOF, is accepted; and every such string is dispatched *)
Theorem C02_dispatch_sound : forall d r p,
  wf_bytes d -> recv_dispatch d = DCall r p ->
  exists pre d' fid, d = pre ++ d' /\ no_sof pre /\ accepts d' fid p /\
                     recv_cb_handle (Z.of_N fid) p = DCall r p.
Proof. exact dispatch_call_accepts. Qed.

Theorem C02_dispatch_complete : forall pre d' fid p,
  wf_bytes d' -> no_sof pre -> accepts d' fid p ->
  recv_dispatch (pre ++ d') = recv_cb_handle (Z.of_N fid) p.
Proof. exact dispatch_accepts_call. Qed.

(** error detection: every valid frame of up to 4095 bytes, every error
    pattern of the same length that leaves the length field alone and is of
    weight 1, weight 2, odd weight, or a burst of <= 16 bits: rejected *)
Theorem C02_detect : forall fid p e,
  0 <= fid <= 8 -> wf_bytes p -> zlen (wire (Z.to_N fid) p) <= 4095 ->
  length e = length (wire (Z.to_N fid) p) -> wf_bytes e ->
  length_intact e -> err_class (bits_of e) ->
  frame_decode (xor_bytes (wire (Z.to_N fid) p) e) = Err EHDR \/
  frame_decode (xor_bytes (wire (Z.to_N fid) p) e) = Err EFOOT.
Proof. exact corrupted_frame_rejected. Qed.

Theorem C02_detect_dispatch : forall fid p e,
  0 <= fid <= 8 -> wf_bytes p -> zlen (wire (Z.to_N fid) p) <= 4095 ->
  length e = length (wire (Z.to_N fid) p) -> wf_bytes e ->
  length_intact e -> nth 0 e 0%N = 0%N -> err_class (bits_of e) ->
  recv_dispatch (xor_bytes (wire (Z.to_N fid) p) e) = DNone.
Proof. exact corrupted_request_ignored. Qed.

(** ** the same, about the text of serialframe.py as it is now (regenerated abstract
    syntax run by the PyLite interpreter, any fuel >= 3) *)
Section OnSource.
Import PyLite Src_all Src_serialframe_proofs Src_frame_corollaries.
Open Scope string_scope.
Open Scope list_scope.

(** ANY byte string: either it is an accepted frame and the decoder returns exactly that
    id and payload, or nothing is accepted for it and the decoder returns an error object
    with no payload; it never raises *)
Theorem C02_decode_decides_src : forall n d,
  wf_bytes d ->
  (exists fid p, 0 <= fid /\ accepts d (Z.to_N fid) p /\
     call_method program (3 + n) sf "frame_decode" [PBytes d] =
     PyLite.Ok (frame_obj (enum_id fid) p noerr, sf))
  \/
  ((forall fid p, ~ accepts d fid p) /\
   (call_method program (3 + n) sf "frame_decode" [PBytes d] = PyLite.Ok (rejected_hdr, sf) \/
    call_method program (3 + n) sf "frame_decode" [PBytes d] = PyLite.Ok (rejected_foot, sf))).
Proof. exact src_frame_decode_decides. Qed.

Theorem C02_detect_src : forall n fid p e,
  0 <= fid <= 8 -> wf_bytes p -> zlen (wire (Z.to_N fid) p) <= 4095 ->
  length e = length (wire (Z.to_N fid) p) -> wf_bytes e ->
  length_intact e -> err_class (bits_of e) ->
  call_method program (3 + n) sf "frame_decode" [PBytes (xor_bytes (wire (Z.to_N fid) p) e)] = PyLite.Ok (rejected_hdr, sf) \/
  call_method program (3 + n) sf "frame_decode" [PBytes (xor_bytes (wire (Z.to_N fid) p) e)] = PyLite.Ok (rejected_foot, sf).
Proof. exact src_corrupted_frame_rejected. Qed.

(** the device-side dispatcher ParseRecv.recv_handle of parserecv.py on ANY byte string, with
    recording callbacks ([pr lg] holds the log of calls made so far): nothing is called, or the
    string cropped at its first start byte is an accepted request and exactly its payload goes to
    the right callback, or the payload-size assertion of that callback fails *)
Theorem C02_dispatch_decides_src : forall n lg d,
  wf_bytes d ->
  (recv_dispatch d = DNone /\
   call_method program (4 + n) (Src_parserecv_proofs.pr lg) "recv_handle" [PBytes d] =
   PyLite.Ok (PNone, Src_parserecv_proofs.pr lg))
  \/
  (exists r p pre d' fid,
     d = pre ++ d' /\ no_sof pre /\ accepts d' fid p /\
     recv_cb_handle (Z.of_N fid) p = DCall r p /\
     call_method program (4 + n) (Src_parserecv_proofs.pr lg) "recv_handle" [PBytes d] =
     PyLite.Ok (PNone, Src_request_corollaries.logged lg (Src_parserecv_proofs.name_of r) p))
  \/
  (recv_dispatch d = DAssert /\
   call_method program (4 + n) (Src_parserecv_proofs.pr lg) "recv_handle" [PBytes d] = Exc "AssertionError").
Proof. exact Src_request_corollaries.src_dispatch_decides. Qed.

Theorem C02_detect_dispatch_src : forall n lg fid p e,
  0 <= fid <= 8 -> wf_bytes p -> zlen (wire (Z.to_N fid) p) <= 4095 ->
  length e = length (wire (Z.to_N fid) p) -> wf_bytes e ->
  length_intact e -> nth 0 e 0%N = 0%N -> err_class (bits_of e) ->
  call_method program (4 + n) (Src_parserecv_proofs.pr lg) "recv_handle"
    [PBytes (xor_bytes (wire (Z.to_N fid) p) e)] = PyLite.Ok (PNone, Src_parserecv_proofs.pr lg).
Proof. exact Src_request_corollaries.src_corrupted_request_ignored. Qed.

Theorem C02_source_refines_model : forall n d,
  call_method program (3 + n) sf "frame_decode" [PBytes d] =
  PyLite.bind (emb_frame (Frame.frame_decode d)) (fun v => PyLite.Ok (v, sf)).
Proof. exact frame_decode_spec. Qed.
End OnSource.

(** non-vacuity: a frame with one flipped payload bit *)
Example C02_example :
  frame_decode [85; 7; 0; 1; 42; 209; 81]%N = Ok (1, [42]%N) /\
  frame_decode [85; 7; 0; 1; 43; 209; 81]%N = Err EFOOT /\
  frame_decode [85; 0; 0; 1; 170; 187; 204]%N = Err EFOOT.
Proof. repeat split; vm_compute; reflexivity. Qed.

Print Assumptions C02_decode_iff.
Print Assumptions C02_decode_total.
Print Assumptions C02_dispatch_sound.
Print Assumptions C02_dispatch_complete.
Print Assumptions C02_detect.
Print Assumptions C02_decode_decides_src.
Print Assumptions C02_detect_src.
Print Assumptions C02_detect_dispatch.
Print Assumptions C02_dispatch_decides_src.

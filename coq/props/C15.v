(** C15 - what the simulated device streams decodes back to what its channels produced. *)
From Coq Require Import String ZArith List.
From NX Require Import Bytes PyStruct StructCanon Frame Stream Stream_proofs Stream_values Stream_enc_proofs
  Pinned_parse Pinned_parserecv Pinned_iparse.
From NX Require PyLite Src_all Src_stream_enc_proofs.
From NX Require Stream_e2e_spec Stream_e2e Stream_e2e_examples.
Open Scope list_scope.
Open Scope Z_scope.

(** samples carrying neither data nor metadata are left out *)
Theorem C15_skip : forall user s r,
  empty_sample s -> encode_samples user (s :: r) = encode_samples user r.
Proof. exact encode_skip. Qed.

(** if none remain, no frame is produced *)
Theorem C15_none : forall user l, Forall empty_sample l -> frame_stream_encode user l = Ok None.
Proof. exact encode_none. Qed.

(** otherwise the payload is the flags byte 0 followed by the encoded samples *)
Theorem C15_some : forall user l b n,
  encode_samples user l = Ok (b, n) ->
  (exists s, In s l /\ ~ empty_sample s) ->
  stream_data_encode user l = Ok (Some (0%N :: b)).
Proof. exact encode_some. Qed.

(** per sample, any row format: the bytes packed by the encoder ("<B" + format)
    are the channel id byte followed by bytes that the decoder's format ("<" +
    format) reads back as the same values, consuming exactly its size *)
Theorem C15_data_roundtrip : forall its chan vs b,
  pack (mkFmt LE false (mkItem 1 CB :: its)) (VInt chan :: vs) = Some b ->
  exists db, b = Z.to_N chan :: db /\
             unpack (mkFmt LE false its) db = Some (canon_items its vs) /\
             List.length db = calcsize (mkFmt LE false its).
Proof. exact data_roundtrip. Qed.

Theorem C15_chan_prefix : forall X its,
  parse_fmt (String.append "<" X) = Some (mkFmt LE false its) ->
  parse_fmt (String.append "<" (String.append "B" X)) = Some (mkFmt LE false (mkItem 1 CB :: its)).
Proof. exact parse_chan_prefix. Qed.

Theorem C15_meta_roundtrip : forall its nat vs mb,
  pack (mkFmt LE nat its) vs = Some mb ->
  unpack (mkFmt LE false its) mb = Some (canon_items its vs) /\
  List.length mb = calcsize (mkFmt LE false its).
Proof. exact meta_roundtrip. Qed.

(** together with C04_payload / C04_any_row (stream decode of any sequence of
    well-formed encoded samples) this gives: decode (encode ss) = the non-empty
    samples, in order.  Worked instance, fixed-point and channel id 200: *)
(** ** END TO END, at full strength (model level): for every layout, every user type table and
    every list of samples that fit their channel ([sample_fits]: a computable predicate - channel
    id 0..255 inside the layout and agreeing with its entry, vdim 1..255 (0 for the data-less
    type), mlen 0..255 with matching metadata, values in the range of the row format; fixed
    point: raw words a Python float holds exactly, i.e. every value the encoder can be GIVEN;
    text that is not cut inside a code point; user types whose format packs the values), whose
    encoded samples fit one frame: either every sample is empty and no frame is produced, or the
    frame decodes as a STREAM frame whose payload the client decodes to EXACTLY the non-empty
    samples, in order, with the values [decoded_of] writes down directly from the encoder-side
    values (never through the decoder).  A list that does not fit one frame is refused with
    struct.error ([C15_too_long]); the exclusions of [sample_fits] are each witnessed by a
    [..._refuted] example in proofs/Stream_e2e_examples.v (F18 among them). *)
Theorem C15_end_to_end : forall lay user l,
  Forall (Stream_e2e_spec.sample_fits lay user) l ->
  Stream_e2e_spec.payload_size l <= 65529 ->
  match frame_stream_encode user l with
  | Ok None => Forall empty_sample l
  | Ok (Some frame) =>
      exists payload,
        frame_decode frame = Ok (id_of "STREAM", payload) /\
        stream_decode lay user payload =
          Ok (Some (0, map (Stream_e2e_spec.decoded_of user) (filter Stream_e2e_spec.non_empty l))) /\
        filter Stream_e2e_spec.non_empty l <> []
  | _ => False
  end.
Proof. exact Stream_e2e.stream_end_to_end. Qed.

Theorem C15_too_long : forall lay user l,
  Forall (Stream_e2e_spec.sample_fits lay user) l -> 65529 < Stream_e2e_spec.payload_size l ->
  frame_stream_encode user l = Raise "struct.error".
Proof. exact Stream_e2e.stream_too_long. Qed.

(** ** ParseRecv._stream_bytes_get / _stream_data_encode / frame_stream_encode (and the table
    functions msfmt_get / dsfmt_get of iparse.py) as they are now: the regenerated abstract
    syntax run by the PyLite interpreter computes the model above for every list of samples in
    the domain [sample_ok] (skipped samples, unknown types, and for known types: non-negative
    vdim / mlen and values that are integers, fixed-point values raw / 2^k with |raw| <= 2^53,
    text of valid code points, or nothing; IEEE float samples are outside PyLite's float
    fragment).  [samp_pv] is the DParseStreamData object of a model sample. *)
Section OnSource.
Import ListNotations PyLite Src_all Src_stream_enc_proofs.
Open Scope string_scope.
Open Scope list_scope.

Theorem C15_encode_src : forall n cbv l,
  Forall sample_ok l ->
  call_method program (5 + n) (pr cbv) "frame_stream_encode" [PList (map samp_pv l)] =
  emb_opt_m (pr cbv) (Stream.frame_stream_encode [] l).
Proof. exact frame_stream_encode_spec. Qed.

Theorem C15_payload_src : forall n cbv l,
  Forall sample_ok l ->
  call_method program (4 + n) (pr cbv) "_stream_data_encode" [PList (map samp_pv l)] =
  emb_opt_m (pr cbv) (Stream.stream_data_encode [] l).
Proof. exact stream_data_encode_spec. Qed.
End OnSource.

Example C15_example :
  frame_stream_encode []
    [mkESample 200 12 1 0 [EVFix 384] []; mkESample 3 1 0 0 [] []; mkESample 1 3 2 1 [EVInt (-1); EVInt 5] [9]] =
  Ok (Some [85; 14; 0; 1; 0; 200; 128; 1; 1; 255; 5; 9; 16; 42]%N).
Proof. vm_compute. reflexivity. Qed.

Print Assumptions C15_skip.
Print Assumptions C15_none.
Print Assumptions C15_some.
Print Assumptions C15_data_roundtrip.
Print Assumptions C15_meta_roundtrip.
Print Assumptions C15_encode_src.
Print Assumptions C15_end_to_end.
Print Assumptions C15_too_long.

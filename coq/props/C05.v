(** C05 - every client request means at the device exactly what the caller asked for. *)
From Coq Require Import String ZArith List.
From NX Require Import Bytes Frame Wire Request Request_proofs Pinned_parse Pinned_parserecv.
From NX Require PyLite Src_all Src_serialframe_proofs Src_parse_req_proofs Src_parserecv_proofs Src_request_corollaries.
Open Scope Z_scope.

(** [delivered r fr payload]: the client call produced the NxScope frame
    [wire fid payload], and the device-side receiver hands exactly [payload]
    to the callback for request kind [r]. *)

Theorem C05_start : forall v,
  delivered RStart (frame_start v) [b01 v] /\ frame_start_decode [b01 v] = Ok v.
Proof. exact start_delivered. Qed.

Theorem C05_cmninfo : delivered RCmninfo frame_cmninfo [].
Proof. exact cmninfo_delivered. Qed.

Theorem C05_chinfo : forall k, 0 <= k <= 255 -> delivered RChinfo (frame_chinfo k) [Z.to_N k].
Proof. exact chinfo_delivered. Qed.

(** every device size 1..255 (the length of the current state vector), every
    current state, every channel below the channel count, every value *)
Theorem C05_enable_single : forall cur k v,
  0 <= k < zlen cur -> zlen cur <= 255 ->
  exists cur',
    delivered REnable (frame_enable (EnSingle k v) (zlen cur)) [0%N; Z.to_N k; b01 v] /\
    frame_enable_decode [0%N; Z.to_N k; b01 v] cur = Ok cur' /\
    list_set cur (Z.to_nat k) v = Some cur'.
Proof. exact enable_single_delivered. Qed.

(** whichever compact form (all / bulk) the client picks for a full vector,
    the device derives exactly that vector *)
Theorem C05_enable_vector : forall cur l,
  length l = length cur -> 1 <= zlen cur <= 255 ->
  exists payload,
    delivered REnable (frame_enable (EnVec l) (zlen cur)) payload /\
    frame_enable_decode payload cur = Ok l.
Proof. exact enable_vec_delivered. Qed.

Theorem C05_div_single : forall cur k v,
  0 <= k < zlen cur -> zlen cur <= 255 -> 0 <= v < 256 ->
  exists cur',
    delivered RDiv (frame_div (DivSingle k v) (zlen cur)) [0%N; Z.to_N k; Z.to_N v] /\
    frame_div_decode [0%N; Z.to_N k; Z.to_N v] cur = Ok cur' /\
    list_set cur (Z.to_nat k) v = Some cur'.
Proof. exact div_single_delivered. Qed.

Theorem C05_div_vector : forall cur l,
  length l = length cur -> 1 <= zlen cur <= 255 -> all_u8 l ->
  exists payload,
    delivered RDiv (frame_div (DivVec l) (zlen cur)) payload /\
    frame_div_decode payload cur = Ok l.
Proof. exact div_vec_delivered. Qed.

(** ** the request builders of proto/parse.py as they are now: the regenerated abstract
    syntax, run by the PyLite interpreter on the object Parser(), computes exactly the model
    the theorems above are about - every argument, every channel count, exceptions included
    ([emb]: Ok b -> the bytes b, Raise w -> the Python exception class w) *)
Section OnSource.
Import PyLite Src_all Src_parse_req_proofs.
Open Scope string_scope.

Theorem C05_parser_constructor_src : forall n, construct program (2 + n) "Parser" [] = PyLite.Ok pa.
Proof. exact construct_spec. Qed.

Theorem C05_start_src : forall n b,
  call_method program (2 + n) pa "frame_start" [PBool b] = emb (frame_start b).
Proof. exact frame_start_spec. Qed.

Theorem C05_cmninfo_src : forall n,
  call_method program (2 + n) pa "frame_cmninfo" [] = emb frame_cmninfo.
Proof. exact frame_cmninfo_spec. Qed.

Theorem C05_chinfo_src : forall n chan,
  call_method program (2 + n) pa "frame_chinfo" [PInt chan] = emb (frame_chinfo chan).
Proof. exact frame_chinfo_spec. Qed.

Theorem C05_enable_single_src : forall n chan v chmax,
  call_method program (3 + n) pa "frame_enable" [PTuple [PInt chan; PBool v]; PInt chmax] =
  emb (frame_enable (EnSingle chan v) chmax).
Proof. exact frame_enable_single_spec. Qed.

Theorem C05_enable_vector_src : forall n l chmax,
  call_method program (3 + n) pa "frame_enable" [PList (map PBool l); PInt chmax] =
  emb (frame_enable (EnVec l) chmax).
Proof. exact frame_enable_vec_spec. Qed.

Theorem C05_div_single_src : forall n chan v chmax,
  call_method program (3 + n) pa "frame_div" [PTuple [PInt chan; PInt v]; PInt chmax] =
  emb (frame_div (DivSingle chan v) chmax).
Proof. exact frame_div_single_spec. Qed.

Theorem C05_div_vector_src : forall n l chmax,
  call_method program (3 + n) pa "frame_div" [PList (map PInt l); PInt chmax] =
  emb (frame_div (DivVec l) chmax).
Proof. exact frame_div_vec_spec. Qed.

(** end to end on the source: what the interpreted client builds, the interpreted device-side
    dispatcher hands to the right (recording) callback, and the interpreted device-side decoder
    turns into exactly the intended per-channel vector - every device size 1..255, every current
    state [chans] (a Device object as the interpreted constructor builds it), every vector *)

Theorem C05_enable_vector_end_to_end_src : forall n lg x chans l,
  length l = length chans -> 1 <= zlen chans <= 255 ->
  exists frame payload,
    call_method program (3 + n) pa "frame_enable" [PList (map PBool l); PInt (zlen chans)] =
      PyLite.Ok (PBytes frame, pa) /\
    call_method program (4 + n) (Src_parserecv_proofs.pr lg) "recv_handle" [PBytes frame] =
      PyLite.Ok (PNone, Src_request_corollaries.logged lg "enable" payload) /\
    call_method program (3 + n) (Src_parserecv_proofs.pr lg) "frame_enable_decode" [PBytes payload; Src_parserecv_proofs.dev_obj x chans] =
      PyLite.Ok (PList (map PBool l), Src_parserecv_proofs.pr lg).
Proof. exact Src_request_corollaries.src_enable_vector_end_to_end. Qed.

Theorem C05_enable_single_end_to_end_src : forall n lg x chans k v,
  0 <= k < zlen chans -> zlen chans <= 255 ->
  exists frame cur',
    call_method program (3 + n) pa "frame_enable" [PTuple [PInt k; PBool v]; PInt (zlen chans)] =
      PyLite.Ok (PBytes frame, pa) /\
    call_method program (4 + n) (Src_parserecv_proofs.pr lg) "recv_handle" [PBytes frame] =
      PyLite.Ok (PNone, Src_request_corollaries.logged lg "enable" [0%N; Z.to_N k; b01 v]) /\
    call_method program (3 + n) (Src_parserecv_proofs.pr lg) "frame_enable_decode"
      [PBytes [0%N; Z.to_N k; b01 v]; Src_parserecv_proofs.dev_obj x chans] =
      PyLite.Ok (PList (map PBool cur'), Src_parserecv_proofs.pr lg) /\
    Request.list_set (map Src_parserecv_proofs.ch_en chans) (Z.to_nat k) v = Some cur'.
Proof. exact Src_request_corollaries.src_enable_single_end_to_end. Qed.

Theorem C05_div_vector_end_to_end_src : forall n lg x chans l,
  length l = length chans -> 1 <= zlen chans <= 255 -> all_u8 l ->
  exists frame payload,
    call_method program (3 + n) pa "frame_div" [PList (map PInt l); PInt (zlen chans)] =
      PyLite.Ok (PBytes frame, pa) /\
    call_method program (4 + n) (Src_parserecv_proofs.pr lg) "recv_handle" [PBytes frame] =
      PyLite.Ok (PNone, Src_request_corollaries.logged lg "div" payload) /\
    call_method program (3 + n) (Src_parserecv_proofs.pr lg) "frame_div_decode" [PBytes payload; Src_parserecv_proofs.dev_obj x chans] =
      PyLite.Ok (PList (map PInt l), Src_parserecv_proofs.pr lg).
Proof. exact Src_request_corollaries.src_div_vector_end_to_end. Qed.

Theorem C05_div_single_end_to_end_src : forall n lg x chans k v,
  0 <= k < zlen chans -> zlen chans <= 255 -> 0 <= v < 256 ->
  exists frame cur',
    call_method program (3 + n) pa "frame_div" [PTuple [PInt k; PInt v]; PInt (zlen chans)] =
      PyLite.Ok (PBytes frame, pa) /\
    call_method program (4 + n) (Src_parserecv_proofs.pr lg) "recv_handle" [PBytes frame] =
      PyLite.Ok (PNone, Src_request_corollaries.logged lg "div" [0%N; Z.to_N k; Z.to_N v]) /\
    call_method program (3 + n) (Src_parserecv_proofs.pr lg) "frame_div_decode"
      [PBytes [0%N; Z.to_N k; Z.to_N v]; Src_parserecv_proofs.dev_obj x chans] =
      PyLite.Ok (PList (map PInt cur'), Src_parserecv_proofs.pr lg) /\
    Request.list_set (map Src_parserecv_proofs.ch_div chans) (Z.to_nat k) v = Some cur'.
Proof. exact Src_request_corollaries.src_div_single_end_to_end. Qed.

Theorem C05_start_end_to_end_src : forall n lg v,
  exists frame,
    call_method program (2 + n) pa "frame_start" [PBool v] = PyLite.Ok (PBytes frame, pa) /\
    call_method program (4 + n) (Src_parserecv_proofs.pr lg) "recv_handle" [PBytes frame] =
      PyLite.Ok (PNone, Src_request_corollaries.logged lg "start" [b01 v]) /\
    call_method program (1 + n) (Src_parserecv_proofs.pr lg) "frame_start_decode" [PBytes [b01 v]] =
      PyLite.Ok (PBool v, Src_parserecv_proofs.pr lg).
Proof. exact Src_request_corollaries.src_start_end_to_end. Qed.

Theorem C05_chinfo_end_to_end_src : forall n lg k,
  0 <= k <= 255 ->
  exists frame,
    call_method program (2 + n) pa "frame_chinfo" [PInt k] = PyLite.Ok (PBytes frame, pa) /\
    call_method program (4 + n) (Src_parserecv_proofs.pr lg) "recv_handle" [PBytes frame] =
      PyLite.Ok (PNone, Src_request_corollaries.logged lg "chinfo" [Z.to_N k]).
Proof. exact Src_request_corollaries.src_chinfo_request_end_to_end. Qed.

Theorem C05_cmninfo_end_to_end_src : forall n lg,
  exists frame,
    call_method program (2 + n) pa "frame_cmninfo" [] = PyLite.Ok (PBytes frame, pa) /\
    call_method program (4 + n) (Src_parserecv_proofs.pr lg) "recv_handle" [PBytes frame] =
      PyLite.Ok (PNone, Src_request_corollaries.logged lg "cmninfo" []).
Proof. exact Src_request_corollaries.src_cmninfo_request_end_to_end. Qed.

(** the device-side decoders are the model on EVERY payload and every device *)
Theorem C05_enable_decode_refines_src : forall n lg x chans d,
  call_method program (3 + n) (Src_parserecv_proofs.pr lg) "frame_enable_decode" [PBytes d; Src_parserecv_proofs.dev_obj x chans] =
  Src_parserecv_proofs.emb_req (fun l => PList (map PBool l)) (Src_parserecv_proofs.pr lg) (frame_enable_decode d (map Src_parserecv_proofs.ch_en chans)).
Proof. exact Src_parserecv_proofs.frame_enable_decode_spec. Qed.

Theorem C05_div_decode_refines_src : forall n lg x chans d,
  call_method program (3 + n) (Src_parserecv_proofs.pr lg) "frame_div_decode" [PBytes d; Src_parserecv_proofs.dev_obj x chans] =
  Src_parserecv_proofs.emb_req (fun l => PList (map PInt l)) (Src_parserecv_proofs.pr lg) (frame_div_decode d (map Src_parserecv_proofs.ch_div chans)).
Proof. exact Src_parserecv_proofs.frame_div_decode_spec. Qed.
End OnSource.

Example C05_example :
  frame_div (DivSingle 1 200) 3 = Ok [85; 9; 0; 7; 0; 1; 200; 225; 138]%N /\
  frame_div_decode [0; 1; 200]%N [0; 0; 0] = Ok [0; 200; 0].
Proof. split; vm_compute; reflexivity. Qed.

Print Assumptions C05_start.
Print Assumptions C05_cmninfo.
Print Assumptions C05_chinfo.
Print Assumptions C05_enable_single.
Print Assumptions C05_enable_vector.
Print Assumptions C05_div_single.
Print Assumptions C05_div_vector.
Print Assumptions C05_enable_vector_src.
Print Assumptions C05_div_vector_src.
Print Assumptions C05_enable_vector_end_to_end_src.
Print Assumptions C05_div_single_end_to_end_src.

(** C14 - the simulated device answers like a conforming NxScope device. *)
From Coq Require Import String ZArith List.
From NX Require Import Bytes Frame Pad Request Info DummyDev DummyDev_proofs Request_proofs
  Pinned_dummy Pinned_parserecv.
Open Scope list_scope.
Open Scope Z_scope.

(** padding, noise without an accepted frame and damaged requests (see C02 for
    which those are) change nothing and produce nothing *)
Theorem C14_ignored : forall d data, recv_dispatch data = DNone -> dummy_handle d data = Ok (d, []).
Proof. exact ignored_input. Qed.

(** every request, padded for any write padding, is handled like the unpadded one *)
Theorem C14_padding : forall d pad fid p r,
  0 <= pad -> wf_bytes p -> frame_create fid p = Ok r ->
  dummy_handle d (data_align pad r) = dummy_handle d r.
Proof. exact handle_padded. Qed.

(** every device definition (1..255 channels, any flags): enable / divider
    requests in single, all or bulk form land on exactly the addressed channels,
    with one ACK iff the device advertises ACK support *)
Theorem C14_enable_single : forall d k v f,
  0 <= k < zlen (dd_chans d) -> zlen (dd_chans d) <= 255 ->
  frame_enable (EnSingle k v) (zlen (dd_chans d)) = Ok f ->
  exists l,
    list_set (map c_en (dd_chans d)) (Z.to_nat k) v = Some l /\
    dummy_handle d f =
      bind (acks d) (fun a => Ok (mkDD (zip_with set_en (dd_chans d) l) (dd_flags d) (dd_rxpad d) (dd_streaming d), a)).
Proof. exact dummy_enable_single. Qed.

Theorem C14_enable_vector : forall d l f,
  List.length l = List.length (dd_chans d) -> 1 <= zlen (dd_chans d) <= 255 ->
  frame_enable (EnVec l) (zlen (dd_chans d)) = Ok f ->
  dummy_handle d f =
    bind (acks d) (fun a => Ok (mkDD (zip_with set_en (dd_chans d) l) (dd_flags d) (dd_rxpad d) (dd_streaming d), a)).
Proof. exact dummy_enable_vector. Qed.

Theorem C14_div_single : forall d k v f,
  0 <= k < zlen (dd_chans d) -> zlen (dd_chans d) <= 255 -> 0 <= v < 256 ->
  frame_div (DivSingle k v) (zlen (dd_chans d)) = Ok f ->
  exists l,
    list_set (map c_div (dd_chans d)) (Z.to_nat k) v = Some l /\
    dummy_handle d f =
      bind (acks d) (fun a => Ok (mkDD (zip_with set_div (dd_chans d) l) (dd_flags d) (dd_rxpad d) (dd_streaming d), a)).
Proof. exact dummy_div_single. Qed.

Theorem C14_div_vector : forall d l f,
  List.length l = List.length (dd_chans d) -> 1 <= zlen (dd_chans d) <= 255 -> all_u8 l ->
  frame_div (DivVec l) (zlen (dd_chans d)) = Ok f ->
  dummy_handle d f =
    bind (acks d) (fun a => Ok (mkDD (zip_with set_div (dd_chans d) l) (dd_flags d) (dd_rxpad d) (dd_streaming d), a)).
Proof. exact dummy_div_vector. Qed.

Theorem C14_start : forall d v f,
  frame_start v = Ok f ->
  dummy_handle d f = bind (acks d) (fun a => Ok (mkDD (dd_chans d) (dd_flags d) (dd_rxpad d) v, a)).
Proof. exact dummy_start. Qed.

Theorem C14_cmninfo : forall d f,
  frame_cmninfo = Ok f ->
  dummy_handle d f =
    bind (frame_cmninfo_encode (zlen (dd_chans d)) (dd_flags d) (dd_rxpad d)) (fun r => Ok (d, [r])).
Proof. exact dummy_cmninfo. Qed.

Theorem C14_chinfo : forall d k c f,
  0 <= k <= 255 -> nth_error (dd_chans d) (Z.to_nat k) = Some c ->
  frame_chinfo k = Ok f ->
  dummy_handle d f = bind (frame_chinfo_encode c) (fun r => Ok (d, [r])).
Proof. exact dummy_chinfo. Qed.

(** sampling: one round takes one sample from every ENABLED channel and from no
    other; every enabled generator advances by exactly one (no loss, no repetition) *)
Theorem C14_round : forall en gens ss gs,
  List.length en = List.length gens -> round en gens 0 = (ss, gs) ->
  (forall i, nth i gs 0%nat = if nth i en false then S (nth i gens 0%nat) else nth i gens 0%nat) /\
  (forall c v, In (c, v) ss -> nth c en false = true /\ v = S (nth c gens 0%nat)).
Proof. exact round_conforms. Qed.

Print Assumptions C14_ignored.
Print Assumptions C14_enable_single.
Print Assumptions C14_enable_vector.
Print Assumptions C14_div_vector.
Print Assumptions C14_chinfo.
Print Assumptions C14_round.

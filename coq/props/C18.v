(** C18 - the serial-port interface is a transparent, non-blocking byte pipe.
    PARTIAL: the client-side logic and the reduction of the session claim to the
    pipe being a FIFO are proved here; that pyserial + the kernel tty layer ARE
    such a FIFO is operating-system behaviour, covered by the pty run only. *)
From Coq Require Import List ZArith.
From NX Require Import Bytes Pad Reasm Pipe Pipe_proofs Pad_proofs Reasm_proofs Pinned_serial Pinned_iintf.
Import ListNotations.

Theorem C18_transparent : forall sizes buf,
  List.concat (fst (pipe_reads buf sizes)) ++ snd (pipe_reads buf sizes) = buf.
Proof. exact pipe_transparent. Qed.

Theorem C18_idle_read : forall n r, fst (pipe_reads [] (n :: r)) = [] :: fst (pipe_reads [] r).
Proof. exact pipe_idle_read. Qed.

Theorem C18_write : forall p d, (0 <= p)%Z ->
  serial_write p d = d ++ repeat 0%N (Z.to_nat (pad_count p (zlen d))).
Proof. exact serial_write_spec. Qed.

(** same frames (hence same description and samples) over any chunking as over the ideal link *)
Theorem C18_session_equivalent : forall buf sizes,
  wf_bytes buf -> snd (pipe_reads buf sizes) = [] ->
  exists r1 r2,
    recv_all (fst (pipe_reads buf sizes)) = Some (fst (scan buf), r1) /\
    recv_all [buf] = Some (fst (scan buf), r2).
Proof. exact session_equivalent. Qed.

Print Assumptions C18_transparent.
Print Assumptions C18_session_equivalent.

(** C04 - stream samples decode to exactly the values the device put on the wire. *)
From Coq Require Import String ZArith List.
From NX Require Import Bytes PyStruct Utf8 StreamTypes Rn53 Stream Stream_proofs Stream_values Utf8_proofs
  Pinned_parse Pinned_iparse.
From NX Require Gen_types.
From NX Require PyLite Src_all Src_serialframe_proofs Src_stream_proofs Src_stream_model Src_stream_dev.
Open Scope list_scope.
Open Scope Z_scope.

(** [w_ok lay user w]: the bytes of the encoded sample [w] (channel byte, data,
    metadata), in front of any continuation, decode to [w_out w] and exactly
    those bytes are consumed. *)

(** the payload: flags byte, then any number of encoded samples in any channel
    order; decoding returns the flags and one sample per encoded sample, in
    wire order, consuming the payload exactly to its end *)
Theorem C04_payload : forall lay user flags ws,
  Forall (w_ok lay user) ws ->
  stream_decode lay user (flags :: List.concat (map w_bytes ws)) =
    Ok (Some (Z.of_N flags, map w_out ws)).
Proof. exact stream_decode_payload. Qed.

(** any row (standard or user-defined "per its format"): whatever the struct
    semantics of the row's format makes of the data bytes is what the sample carries *)
Theorem C04_any_row : forall lay user chb ch rw usr f fm db mb rest vals sv mvals,
  nth_chan lay (N.to_nat chb) = Some ch ->
  dsfmt_get (l_type ch) user = Ok (rw, usr) ->
  (usr = true -> exists fu, sfmt_parse (String.append Gen_types.stream_le_prefix (r_fmt rw)) = Ok fu /\
                            Z.of_nat (calcsize fu) = l_vdim ch) ->
  sfmt_parse (String.append Gen_types.stream_le_prefix
              (String.append (if negb (l_vdim ch =? 0) && negb usr then str_of_Z (l_vdim ch) else ""%string)
                             (r_fmt rw))) = Ok f ->
  zlen db = r_slen rw * l_vdim ch ->
  unpack f db = Some vals ->
  stream_data_get rw vals = Ok sv ->
  sfmt_parse (String.append Gen_types.meta_le_prefix (msfmt_get (l_mlen ch))) = Ok fm ->
  zlen mb = l_mlen ch ->
  unpack fm mb = Some mvals ->
  decode_one lay user (chb :: db ++ mb ++ rest) =
    Ok (mkSample (l_chan ch) (r_kind rw) (l_vdim ch) (l_mlen ch) sv (map sval_raw mvals), rest).
Proof. exact decode_one_ok. Qed.

(** integer types (rows 2..9 of the regenerated table): every raw word, exactly *)
Theorem C04_integers : forall lay user chb ch rw c raws mb,
  nth_chan lay (N.to_nat chb) = Some ch ->
  Stream.zassoc (l_type ch) Gen_types.dsfmt_rows = Some rw -> int_row rw c ->
  1 <= l_vdim ch <= 255 -> List.length raws = Z.to_nat (l_vdim ch) ->
  Forall (fun r => (r < pow256 (code_size c))%N) raws ->
  0 <= l_mlen ch <= 255 -> zlen mb = l_mlen ch -> wf_bytes mb ->
  w_ok lay user
    (mkW chb (List.concat (map (le_enc (code_size c)) raws)) mb
         (mkSample (l_chan ch) 1 (l_vdim ch) (l_mlen ch)
                   (map (fun r => SVInt (int_meaning c r)) raws) (meta_vals (l_mlen ch) mb))).
Proof. exact int_sample_ok. Qed.

Theorem C04_integer_rows :
  forall t, In t [2; 3; 4; 5; 6; 7; 8; 9] ->
  exists rw c, Stream.zassoc t Gen_types.dsfmt_rows = Some rw /\ int_row rw c.
Proof. exact gen_int_rows. Qed.

(** fixed-point types (rows 12..17): rn53(raw) / 2^k, exactly raw / 2^k for |raw| <= 2^53 *)
Theorem C04_fixed : forall lay user chb ch rw c k raws mb,
  nth_chan lay (N.to_nat chb) = Some ch ->
  Stream.zassoc (l_type ch) Gen_types.dsfmt_rows = Some rw -> fix_row rw c k ->
  1 <= l_vdim ch <= 255 -> List.length raws = Z.to_nat (l_vdim ch) ->
  Forall (fun r => (r < pow256 (code_size c))%N) raws ->
  0 <= l_mlen ch <= 255 -> zlen mb = l_mlen ch -> wf_bytes mb ->
  w_ok lay user
    (mkW chb (List.concat (map (le_enc (code_size c)) raws)) mb
         (mkSample (l_chan ch) 1 (l_vdim ch) (l_mlen ch)
                   (map (fix_meaning c k) raws) (meta_vals (l_mlen ch) mb))).
Proof. exact fix_sample_ok. Qed.

Theorem C04_fixed_rows :
  forall t k, In (t, k) [(12, 8); (13, 8); (14, 16); (15, 16); (16, 32); (17, 32)] ->
  exists rw c, Stream.zassoc t Gen_types.dsfmt_rows = Some rw /\ fix_row rw c k.
Proof. exact gen_fix_rows. Qed.

Theorem C04_fixed_exact : forall c k r,
  Z.abs (int_meaning c r) <= 2 ^ 53 ->
  match fix_meaning c k r with
  | SVDyad n e' => (int_meaning c r = 0 -> n = 0) /\
                   (int_meaning c r <> 0 -> int_meaning c r = n * 2 ^ (k - e') /\ e' <= k)
  | _ => False
  end.
Proof. exact fix_value_exact. Qed.

(** IEEE floats: the bit patterns, exactly (NaN/inf included) *)
Theorem C04_float32 : forall lay user chb ch bits mb,
  nth_chan lay (N.to_nat chb) = Some ch -> l_type ch = 10 ->
  1 <= l_vdim ch <= 255 -> List.length bits = Z.to_nat (l_vdim ch) ->
  Forall (fun r => (r < pow256 4)%N) bits ->
  0 <= l_mlen ch <= 255 -> zlen mb = l_mlen ch -> wf_bytes mb ->
  w_ok lay user
    (mkW chb (List.concat (map (le_enc 4) bits)) mb
         (mkSample (l_chan ch) 1 (l_vdim ch) (l_mlen ch) (map SVF32 bits) (meta_vals (l_mlen ch) mb))).
Proof. exact f32_sample_ok. Qed.

Theorem C04_float64 : forall lay user chb ch bits mb,
  nth_chan lay (N.to_nat chb) = Some ch -> l_type ch = 11 ->
  1 <= l_vdim ch <= 255 -> List.length bits = Z.to_nat (l_vdim ch) ->
  Forall (fun r => (r < pow256 8)%N) bits ->
  0 <= l_mlen ch <= 255 -> zlen mb = l_mlen ch -> wf_bytes mb ->
  w_ok lay user
    (mkW chb (List.concat (map (le_enc 8) bits)) mb
         (mkSample (l_chan ch) 1 (l_vdim ch) (l_mlen ch) (map SVF64 bits) (meta_vals (l_mlen ch) mb))).
Proof. exact f64_sample_ok. Qed.

(** char data: ARBITRARY bytes decode without failing; valid UTF-8 gives its text *)
Theorem C04_char_total : forall lay user chb ch db mb,
  nth_chan lay (N.to_nat chb) = Some ch -> (l_type ch = 18 \/ l_type ch = 19) ->
  1 <= l_vdim ch <= 255 -> zlen db = l_vdim ch -> wf_bytes db ->
  0 <= l_mlen ch <= 255 -> zlen mb = l_mlen ch -> wf_bytes mb ->
  w_ok lay user
    (mkW chb db mb
         (mkSample (l_chan ch) 2 (l_vdim ch) (l_mlen ch) [text_of db] (meta_vals (l_mlen ch) mb))).
Proof. exact char_sample_ok. Qed.

Theorem C04_char_text : forall cps,
  Forall (fun c => valid_cp c = true) cps -> text_of (utf8_enc cps) = SVText cps.
Proof. exact text_of_valid. Qed.

(** the data-less type *)
Theorem C04_none : forall lay user chb ch mb,
  nth_chan lay (N.to_nat chb) = Some ch -> l_type ch = 1 -> l_vdim ch = 0 ->
  0 <= l_mlen ch <= 255 -> zlen mb = l_mlen ch -> wf_bytes mb ->
  w_ok lay user
    (mkW chb [] mb (mkSample (l_chan ch) 0 0 (l_mlen ch) [] (meta_vals (l_mlen ch) mb))).
Proof. exact none_sample_ok. Qed.

(** ** Parser.frame_stream_decode / _stream_data_get and msfmt_get / dsfmt_get as they are now:
    the regenerated abstract syntax run by the PyLite interpreter (standard types, no user
    types), on a STREAM frame with payload [data] and a Device object whose channels are [cfgs]
    ([cfg_ok]: 0 <= vdim <= 255 and 0 <= mlen, the ranges of the channel-info bytes; [lay_of]
    their layout in the model above).  The result is the model's, sample for sample, value for
    value ([sample_pv]: integers, floats as the dyadic rational of the bit pattern, fixed point
    as rn53(raw)/2^k, text); the one exception is text that is not valid UTF-8, which the source
    decodes with replacement characters and PyLite refuses ("lossy decode", fail-closed). *)
Section OnSource.
Import ListNotations PyLite Src_all Src_serialframe_proofs Src_stream_proofs Src_stream_model.
Open Scope string_scope.
Open Scope list_scope.

Theorem C04_decode_src : forall n dd cfgs data,
  Forall cfg_ok cfgs ->
  stream_rel (Stream.stream_decode (lay_of cfgs) [] data)
             (call_method program (3 + List.length data + n) parser "frame_stream_decode"
                          [stream_frame data; dev_obj dd cfgs]).
Proof. exact frame_stream_decode_model_fuel. Qed.

Theorem C04_decode_ok_src : forall n dd cfgs data fl ss,
  Forall cfg_ok cfgs ->
  Stream.stream_decode (lay_of cfgs) [] data = Frame.Ok (Some (fl, ss)) ->
  existsb sample_lossy ss = false ->
  call_method program (3 + List.length data + n) parser "frame_stream_decode"
              [stream_frame data; dev_obj dd cfgs] =
  PyLite.Ok (stream_obj fl (map sample_pv ss), parser).
Proof. exact frame_stream_decode_ok. Qed.

(** the payload theorem on the source: flags byte + any sequence of well-formed encoded samples *)
Theorem C04_payload_src : forall n dd cfgs flags ws,
  Forall cfg_ok cfgs ->
  Forall (w_ok (lay_of cfgs) []) ws ->
  existsb sample_lossy (map w_out ws) = false ->
  call_method program (3 + List.length (flags :: List.concat (map w_bytes ws)) + n) parser "frame_stream_decode"
              [stream_frame (flags :: List.concat (map w_bytes ws)); dev_obj dd cfgs] =
  PyLite.Ok (stream_obj (Z.of_N flags) (map sample_pv (map w_out ws)), parser).
Proof.
  intros n dd cfgs flags ws F W L.
  apply frame_stream_decode_ok; [exact F| |exact L].
  apply stream_decode_payload. exact W.
Qed.

Theorem C04_tables_src : forall n,
  (forall mlen, 0 <= mlen -> call_function program (1 + n) "msfmt_get" [PInt mlen] = PyLite.Ok (PStr (Stream.msfmt_get mlen))) /\
  (forall dtype, call_function program (1 + n) "dsfmt_get" [PInt dtype; PNone] = emb_dsfmt (Stream.dsfmt_get dtype [])).
Proof. intros n. split; [intros; now apply msfmt_get_spec|intros; apply dsfmt_get_spec]. Qed.
End OnSource.

Example C04_example :
  stream_decode [mkChanL 8 1 0 0; mkChanL 12 1 2 1] []
    [1; 0; 255; 255; 255; 255; 255; 255; 255; 255; 1; 128; 1; 7; 0]%N =
  Ok (Some (1, [mkSample 0 1 1 0 [SVInt 18446744073709551615] [];
                mkSample 1 1 1 2 [SVDyad 3 1] [SVInt 7]])).
Proof. vm_compute. reflexivity. Qed.

Print Assumptions C04_payload.
Print Assumptions C04_any_row.
Print Assumptions C04_integers.
Print Assumptions C04_fixed.
Print Assumptions C04_fixed_exact.
Print Assumptions C04_float32.
Print Assumptions C04_float64.
Print Assumptions C04_char_total.
Print Assumptions C04_none.
Print Assumptions C04_decode_src.
Print Assumptions C04_payload_src.

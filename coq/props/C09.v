(** C09 - connect / stream / disconnect behave as a clean, repeatable life cycle. *)
From Coq Require Import List ZArith Bool.
From NX Require Import Handshake Handshake_proofs Pinned_comm Pinned_nxscope Pinned_thread.
Import ListNotations.

(** every finite sequence of public calls keeps the state-machine invariant *)
Theorem C09_invariant : forall ks s, nx_inv s -> nx_inv (nx_run s ks).
Proof. exact nx_run_inv. Qed.

Theorem C09_connect_idempotent : forall s, connected_f s = true -> nx_step s KConnect = (s, RDone).
Proof. exact connect_idem. Qed.

Theorem C09_disconnect_idempotent : forall s, connected_f s = false -> nx_step s KDisconnect = (s, RDone).
Proof. exact nx_disconnect_idem. Qed.

(** calls made while disconnected never reach the device, start threads or change anything *)
Theorem C09_disconnected_inert : forall s k,
  nx_inv s -> connected_f s = false -> k <> KConnect -> fst (nx_step s k) = s.
Proof. exact disconnected_calls_inert. Qed.

(** after disconnect, from every history and every initial device state (idle
    or left streaming with channels enabled): device told to stop and to
    disable every channel, no description, no thread *)
Theorem C09_after_disconnect : forall ks a b,
  let s := nx_run (nx0 a b) (ks ++ [KDisconnect]) in
  connected_f s = false /\ stream_thread s = false /\ cm s = comm0 /\
  (connected_f (nx_run (nx0 a b) ks) = true -> dev_streaming s = false /\ dev_enabled s = false).
Proof. exact after_disconnect. Qed.

Print Assumptions C09_invariant.
Print Assumptions C09_disconnected_inert.
Print Assumptions C09_after_disconnect.

(** C09 - connect / stream / disconnect behave as a clean, repeatable life cycle. *)
From Coq Require Import List ZArith Bool.
From NX Require Import Handshake Handshake_proofs Pinned_comm Pinned_nxscope Pinned_thread.
From Coq Require String.
From NX Require PyLite Src_all Src_handshake_base Src_handshake_devinfo Src_handshake_proofs Worker Src_worker_base.
Import ListNotations.

(** every finite sequence of public calls keeps the state-machine invariant *)
Theorem C09_invariant : forall ks s, nx_inv s -> nx_inv (nx_run s ks).
Proof. exact nx_run_inv. Qed.

Theorem C09_connect_idempotent : forall s, connected_f s = true -> nx_step s KConnect = (s, RDone).
Proof. exact connect_idem. Qed.

Theorem C09_disconnect_idempotent : forall s, connected_f s = false -> nx_step s KDisconnect = (s, RDone).
Proof. exact nx_disconnect_idem. Qed.

(** calls made while disconnected never reach the device, start threads or change anything *)
Theorem C09_disconnected_inert : forall s k,
  nx_inv s -> connected_f s = false -> k <> KConnect -> fst (nx_step s k) = s.
Proof. exact disconnected_calls_inert. Qed.

(** after disconnect, from every history and every initial device state (idle
    or left streaming with channels enabled): device told to stop and to
    disable every channel, no description, no thread *)
Theorem C09_after_disconnect : forall ks a b,
  let s := nx_run (nx0 a b) (ks ++ [KDisconnect]) in
  connected_f s = false /\ stream_thread s = false /\ cm s = comm0 /\
  (connected_f (nx_run (nx0 a b) ks) = true -> dev_streaming s = false /\ dev_enabled s = false).
Proof. exact after_disconnect. Qed.

(** ** "every reconnect reports the same static description": on the source the description read at a
    connect is a FUNCTION of what the device answers - the interpreted CommHandler._devinfo_get (frame
    queues scripted: any frames, any time-outs) equals the total function [devinfo_m] of the script; in
    particular stale frames of an earlier exchange are drained ([_drop_all]) before the channel-info
    requests, whatever the padding does (proofs/Src_handshake_*.v). *)
Section OnSource.
Import String PyLite Src_all Src_handshake_base Src_handshake_devinfo Src_handshake_proofs.
Open Scope string_scope.
Open Scope nat_scope.
Theorem C09_description_src : forall n w p d q qs,
  264 <= n ->
  call_method program n (hcomm w p d q qs) "_devinfo_get" [] = emb_dev_top (devinfo_m w p d q qs).
Proof. exact devinfo_get_spec_const. Qed.

(** "no library thread is left alive" rests on what the common worker helper does with a handle:
    on the source (thread.py interpreted with thread / event stubs, proofs/Src_worker_base.v)
    thread_stop with NO handle changes nothing; with a handle whose worker is not alive (never
    started, or finished on its own) it sets the flag, does not join and CLEARS the handle - so the
    next thread_start starts a new worker; with an alive worker it stands at the join *)
Theorem C09_worker_stop_src : forall n tgt ini fin h f s nm,
  call_method program (3 + n) (Src_worker_base.tc tgt ini fin (Src_worker_base.handle nm h) (Src_worker_base.ev f s) nm) "thread_stop" [] =
  match h with
  | None => PyLite.Ok (PNone, Src_worker_base.tc tgt ini fin PNone (Src_worker_base.ev f s) nm)
  | Some (p, _) => if Worker.alive p then Exc "BlockingIOError"
                   else PyLite.Ok (PNone, Src_worker_base.tc tgt ini fin PNone (Src_worker_base.ev true s) nm)
  end.
Proof. exact Src_worker_base.thread_stop_spec. Qed.

Theorem C09_worker_start_src : forall n tgt ini fin h f s nm,
  call_method program (3 + n) (Src_worker_base.tc tgt ini fin (Src_worker_base.handle nm h) (Src_worker_base.ev f s) nm) "thread_start" [] =
  PyLite.Ok (PNone, match h with
                    | Some _ => Src_worker_base.tc tgt ini fin (Src_worker_base.handle nm h) (Src_worker_base.ev f s) nm
                    | None => Src_worker_base.tc tgt ini fin (Src_worker_base.thr Src_worker_base.bound_loop nm Worker.WInit 0%Z) (Src_worker_base.ev false s) nm
                    end).
Proof. exact Src_worker_base.thread_start_spec. Qed.
End OnSource.

Print Assumptions C09_invariant.
Print Assumptions C09_disconnected_inert.
Print Assumptions C09_after_disconnect.
Print Assumptions C09_description_src.
Print Assumptions C09_worker_stop_src.
Print Assumptions C09_worker_start_src.

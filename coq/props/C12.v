(** C12 - concurrent application threads see a consistent device and never deadlock. *)
From Coq Require Import String List Arith Bool ZArith.
From NX Require Import Locks Config Config_proofs Locks_proofs Pinned_comm Pinned_nxscope Pinned_dev.
From NX Require Gen_misc.
Import ListNotations.

(** the lock nesting regenerated from comm.py / nxscope.py / dev.py respects one
    rank order (channels lock -> device-info lock only): no two locks are ever
    taken in opposite orders *)
Theorem C12_lock_order : edges_ranked Gen_misc.lock_edges = true.
Proof. exact lock_order. Qed.

(** the receive path takes no lock, so a writer waiting for its ACK while
    holding the channels lock is always served *)
Theorem C12_recv_path_lock_free : Gen_misc.recv_path_locks = [].
Proof. exact recv_path_lock_free. Qed.

(** every read or write of a lock-protected field (comm: the channel tables; dev: the
    channel list; nxscope: the subscription lists) happens under its lock, apart from the
    constructors and connect() - recomputed from the source on every run *)
Theorem C12_guarded_access : all_guarded Gen_misc.unguarded_access = true.
Proof. exact guarded_access. Qed.

(** with locks requested in increasing rank there is no wait-for cycle among
    any number of threads: no deadlock *)
Theorem C12_no_deadlock : forall (all_ordered : forall t : thr, ordered t) a, ~ path a a.
Proof. exact no_deadlock_cycle. Qed.

(** on a device that acknowledges every request, after ANY history of
    configuration calls and writes (the operations of all threads, serialised by
    the channels lock) what the client reports equals the device's state *)
Theorem C12_consistent_reads : forall ops s,
  Inv s -> Forall all_acked ops -> en_sync (fst s) = true -> div_sync (fst s) = true ->
  d_en (snd (run s ops)) = en_now (fst (run s ops)) /\ d_div (snd (run s ops)) = div_now (fst (run s ops)).
Proof. exact consistent_reads. Qed.

(** once all threads are done, a (last) acknowledged write leaves the device at the last requested state *)
Theorem C12_final : forall s0 ops a1 a2,
  Inv s0 ->
  let '(c, d) := run s0 ops in
  acked d a1 -> acked d a2 ->
  let '(c', d') := write c d a1 a2 in
  d_en d' = en_new c /\ en_now c' = en_new c /\
  (d_div_supported d = true -> d_div d' = div_new c /\ div_now c' = div_new c) /\
  (d_div_supported d = false -> d_div d' = d_div d /\ div_now c' = div_now c).
Proof. exact write_converges. Qed.

Print Assumptions C12_lock_order.
Print Assumptions C12_no_deadlock.
Print Assumptions C12_consistent_reads.

(** C19 - device and channel descriptions are read-only apart from enable and divider. *)
From Coq Require Import String ZArith List.
From NX Require Import Records Records_proofs.
From NX Require PyLite Src_all Src_records_proofs.
Open Scope string_scope.
Open Scope Z_scope.

(** every constructed channel record, every attribute name (declared,
    derived, private or new), every value: the assignment raises and leaves
    the record as it was unless the name is "en" or "div" *)
Theorem C19_channel : forall chan typ vdim nm en div mlen name v,
  let r := chan_new chan typ vdim nm en div mlen in
  if assignable name
  then chan_setattr r name v = (put r name v, Done)
  else chan_setattr r name v = (r, TypeError).
Proof. exact chan_record_readonly. Qed.

(** the allowed assignment changes exactly that attribute *)
Theorem C19_only_that : forall s name v,
  get (put s name v) name = Some v /\ forall m, m <> name -> get (put s name v) m = get s m.
Proof. exact put_only_that. Qed.

(** device record: every assignment raises and changes nothing *)
Theorem C19_device : forall chmax flags rx name v,
  dev_setattr (dev_new chmax flags rx) name v = (dev_new chmax flags rx, TypeError).
Proof. exact dev_record_readonly. Qed.

(** derived attributes for every type byte 0..255 / flags byte *)
Theorem C19_derived : forall typ chan vdim nm en div mlen,
  0 <= typ < 256 ->
  let r := chan_new chan typ vdim nm en div mlen in
  get r "_type" = Some (PInt typ) /\
  get r "dtype" = Some (PInt (typ mod 32)) /\
  get r "critical" = Some (PBool (128 <=? typ)) /\
  get r "type_res" = Some (PInt ((typ / 32 mod 4) * 32)) /\
  get r "is_valid" = Some (PBool (negb (typ mod 32 =? 0))) /\
  get r "is_numerical" =
    Some (PBool (negb ((typ mod 32 =? 0) || (typ mod 32 =? 1) || (typ mod 32 =? 18) || (typ mod 32 =? 19)))).
Proof. exact chan_derived. Qed.

Theorem C19_device_derived : forall chmax flags rx,
  0 <= flags < 256 ->
  let r := dev_new chmax flags rx in
  get r "chmax" = Some (PInt chmax) /\ get r "flags" = Some (PInt flags) /\
  get r "rxpadding" = Some (PInt rx) /\
  get r "div_supported" = Some (PBool (Z.odd flags)) /\
  get r "ack_supported" = Some (PBool (Z.odd (flags / 2))).
Proof. exact dev_derived. Qed.

(** ** directly on dev.py as it is now: the regenerated abstract syntax of the two
    dataclasses (generated __init__ written out, __post_init__, __setattr__) run by the PyLite
    interpreter.  [chan_rec] / [dev_rec] are the records the interpreted constructors build
    (all 13 / 6 fields explicit, derived values included), for EVERY argument - no range
    restriction on the type value; [set_attr] is setattr(obj, name, value) returning obj. *)
Section OnSource.
Import ListNotations PyLite Src_all Src_records_proofs.
Open Scope list_scope.

Theorem C19_construct_channel_src : forall n chan typ vdim name en div mlen,
  construct program (3 + n) "DDeviceChannelData"
    [PInt chan; PInt typ; PInt vdim; PStr name; PBool en; PInt div; PInt mlen] =
  PyLite.Ok (chan_rec chan typ vdim name en div mlen).
Proof. exact chan_construct. Qed.

Theorem C19_construct_device_src : forall n chmax flags rxp,
  construct program (3 + n) "DDeviceData" [PInt chmax; PInt flags; PInt rxp] =
  PyLite.Ok (dev_rec chmax flags rxp).
Proof. exact dev_construct. Qed.

(** every attribute name (any string), every value (any Python value of the subset) *)
Theorem C19_channel_src : forall n chan typ vdim name en div mlen a v,
  call_function program (2 + n) "set_attr" [chan_rec chan typ vdim name en div mlen; PStr a; v] =
  if orb (String.eqb a "div") (String.eqb a "en")
  then PyLite.Ok (PObj "DDeviceChannelData"
                    (update a v (chan_fields chan typ vdim name (PBool en) (PInt div) mlen)))
  else Exc "TypeError".
Proof. exact chan_set_attr_all. Qed.

Theorem C19_device_src : forall n chmax flags rxp a v,
  call_function program (2 + n) "set_attr" [dev_rec chmax flags rxp; PStr a; v] = Exc "TypeError".
Proof. exact dev_set_attr_readonly. Qed.

(** the library's own maintenance of en / div goes through the same records *)
Theorem C19_library_updates_en_src : forall n flags rxp chans l,
  List.length l = List.length chans ->
  call_method program (2 + n) (dev_obj flags rxp chans) "en_channels_update" [PList (map PBool l)] =
  PyLite.Ok (PNone, dev_obj flags rxp (zipw set_en chans l)).
Proof. exact en_channels_update_spec. Qed.

Theorem C19_library_updates_div_src : forall n flags rxp chans l,
  List.length l = List.length chans ->
  call_method program (2 + n) (dev_obj flags rxp chans) "div_channels_update" [PList (map PInt l)] =
  PyLite.Ok (PNone, dev_obj flags rxp (zipw set_div chans l)).
Proof. exact div_channels_update_spec. Qed.
End OnSource.

Example C19_example :
  snd (chan_setattr (chan_new 3 130 2 "x" false 0 1) "vdim" (PInt 9)) = TypeError /\
  get (fst (chan_setattr (chan_new 3 130 2 "x" false 0 1) "en" (PBool true))) "en" = Some (PBool true).
Proof. split; reflexivity. Qed.

Print Assumptions C19_channel.
Print Assumptions C19_only_that.
Print Assumptions C19_device.
Print Assumptions C19_derived.
Print Assumptions C19_device_derived.
Print Assumptions C19_channel_src.
Print Assumptions C19_device_src.
Print Assumptions C19_construct_channel_src.

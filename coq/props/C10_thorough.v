(** C10, thorough tier: theorems about the interpreted life-cycle methods on the complete handler
    objects (a chain of symbolic executions that takes about 15 minutes to re-check). *)
From Coq Require Import List ZArith Bool.
From NX Require Bytes PyStruct Crc PyLite PyLite_tactics PyLite_tactics_ext PyLite_tactics_try
  Src_dev Src_iparse Src_parse Src_comm Src_nxscope Src_prelude Src_all
  Src_serialframe_proofs Src_parse_req_lemmas Src_records_proofs Src_config_base Src_config_req Src_config_write
  Src_handshake_base Src_handshake_devinfo Src_handshake_proofs
  Src_lc_base Src_lc_devinfo Src_lifecycle_comm Src_lifecycle_nx Src_lifecycle_nx_ops Src_lifecycle_proofs.
From NX Require Frame Request Info Config Handshake.
From Coq Require String Ascii NArith.
Import ListNotations.

(** ** CommHandler.connect / disconnect (_start with its clean-up handler, _stop) as they are now, on the
    complete handler object, both frame queues scripted with ANY items of ANY length: constant fuel,
    bounded requests, the clean-up done at every raise, disconnect never raises. *)
Section OnSourceLifecycle.
Import String Ascii ZArith NArith Bytes PyStruct Crc PyLite PyLite_tactics PyLite_tactics_ext PyLite_tactics_try
  Src_dev Src_iparse Src_parse Src_comm Src_nxscope Src_prelude Src_all
  Src_serialframe_proofs Src_parse_req_lemmas Src_records_proofs Src_config_base Src_config_req Src_config_write
  Src_handshake_base Src_handshake_devinfo Src_handshake_proofs
  Src_lc_base Src_lc_devinfo Src_lifecycle_comm Src_lifecycle_nx Src_lifecycle_nx_ops Src_lifecycle_proofs.
Open Scope string_scope.
Open Scope Z_scope.
Theorem C10_start_outcomes_src : forall n (r : bool) (s t : Z) ev w p d q qs rest cmax,
  crest rest -> (265 <= n)%nat -> chmax_le cmax q ->
  let s' := if r then s else s + 1 in
  let run := call_func program n CommHandler__start
               [gcomm (PBool false) (fake_thread r s t) ev w p d PNone (map item_pv q) (map item_pv qs) rest] [] in
  (exists cm fl rxp acc w' p' d' q' qs',
     run = PyLite.Ok (PNone, Some (gcomm (PBool true) (fake_thread true s' t) (ev ++ ["intf.start"]) w' p' d'
                                     (dev_of cm fl rxp acc) (map item_pv q') (map item_pv qs')
                                     [("_channels", chans_obj (init_cli (map chan_desc_of acc)))])) /\
     start_bounds cmax w q qs w' q' qs') \/
  (exists e w' p' d' q' qs',
     In e ["TimeoutError"; "struct.error"; "UnicodeDecodeError"] /\
     run = ExcS e (self_st (gcomm (PBool false) (fake_thread false s' (t + 1)) (ev ++ ["intf.start"; "intf.stop"])
                              w' p' d' PNone (map item_pv q') (map item_pv qs') rest)) /\
     start_bounds cmax w q qs w' q' qs' /\
     (e = "TimeoutError" <-> none_rounds 6 (start_state w p d q qs) = Some (w', p', d', q', qs'))).
Proof. exact start_outcomes. Qed.

Theorem C10_connect_request_bound_src : forall w q qs w' q' qs',
  start_bounds 255 w q qs w' q' qs' ->
  (List.length w' <= List.length w + 1 + Handshake.connect_attempts * (2 + 255 * Handshake.chinfo_attempts))%nat.
Proof. exact start_request_bound. Qed.

Theorem C10_disconnect_returns_src : forall n (b r : bool) s t ev w p d dev q qs rest,
  crest rest -> (266 <= n)%nat ->
  exists self',
    call_method program n (gcomm (PBool b) (fake_thread r s t) ev w p d dev (map item_pv q) (map item_pv qs) rest)
      "disconnect" [] = PyLite.Ok (PNone, self').
Proof. exact disconnect_returns. Qed.

Theorem C10_connect_disconnect_src : forall n r s t ev w p d q qs rest self1,
  crest rest -> (266 <= n)%nat ->
  call_method program n (gcomm (PBool false) (fake_thread r s t) ev w p d PNone (map item_pv q) (map item_pv qs) rest)
    "connect" [] = PyLite.Ok (PNone, self1) ->
  exists w' p' d' q' qs' c,
    call_method program n self1 "disconnect" [] =
    PyLite.Ok (PNone, gcomm (PBool false) (fake_thread false (if r then s else s + 1) (t + 1))
                        (ev ++ ["intf.start"; "intf.stop"]) w' p' d' PNone (map item_pv q') (map item_pv qs')
                        [("_channels", c)]).
Proof. exact connect_disconnect. Qed.

End OnSourceLifecycle.

Print Assumptions C10_start_outcomes_src.
Print Assumptions C10_connect_request_bound_src.
Print Assumptions C10_disconnect_returns_src.
Print Assumptions C10_connect_disconnect_src.

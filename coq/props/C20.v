(** C20 - custom frame codecs plug in without changing client or device-side behaviour. *)
From Coq Require Import List ZArith Bool.
From NX Require Import Bytes Frame Reasm Reasm_proofs Codec Codec_proofs Family Family_proofs
  Pinned_comm Pinned_parse Pinned_parserecv.
Import ListNotations.

(** frame reassembly over an ARBITRARY codec that honours the interface laws
    [lawful2] refines the one-pass scan with that codec's framing, for every way
    the transport splits the bytes (the C03 guarantee, generalised) *)
Theorem C20_reassembly_any_codec : forall (K : codec), lawful2 K -> forall chunks : link,
  wf_link chunks ->
  exists rest, krecv_all K chunks = Some (fst (kscan K (List.concat chunks)), rest).
Proof. exact krecv_all_scan. Qed.

(** the built-in codec is one such codec, and the generic model instantiated
    with it IS the model the C03 theorems are about *)
Theorem C20_serial_lawful : lawful2 serial_codec.
Proof. exact serial_lawful2. Qed.

Theorem C20_serial_instance : forall chunks, krecv_all serial_codec chunks = recv_all chunks.
Proof. exact krecv_all_serial. Qed.

(** every member of the parameterised family (start byte, header length 3..8,
    length and id fields at any position, 1- or 2-byte length in either
    endianness, XOR or additive-sum footer of 1..4 bytes) honours the laws ... *)
Theorem C20_family_lawful : forall m, fam_ok m = true -> lawful2 (fam_codec m).
Proof. exact family_lawful2. Qed.

(** ... hence reassembly behaves with each of them exactly as with the built-in one *)
Theorem C20_family_reassembly : forall m, fam_ok m = true -> forall chunks : link,
  wf_link chunks ->
  exists rest, krecv_all (fam_codec m) chunks = Some (fst (kscan (fam_codec m) (List.concat chunks)), rest).
Proof. exact family_reassembly. Qed.

(** the laws are needed: a codec that satisfies the first six laws but declares a
    negative length (or accepts the empty frame) makes the result depend on the chunking *)
Theorem C20_laws_needed : lawful neg_codec /\
  krecv_all neg_codec [[85%N; 1%N]; [2%N]] <> Some (fst (kscan neg_codec [85%N; 1%N; 2%N]), []).
Proof. split; [exact neg_codec_lawful|]. vm_compute. discriminate. Qed.

Print Assumptions C20_reassembly_any_codec.
Print Assumptions C20_family_lawful.
Print Assumptions C20_family_reassembly.

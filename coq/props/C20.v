(** C20 - custom frame codecs plug in without changing client or device-side behaviour. *)
From Coq Require Import List ZArith Bool.
From NX Require Import Bytes Frame Reasm Reasm_proofs Codec Codec_proofs Family Family_proofs
  Pinned_comm Pinned_parse Pinned_parserecv.
From Coq Require Import String.
From NX Require PyLite Src_all Src_serialframe_proofs Src_reasm_proofs Src_reasm_generic Src_xorframe_proofs Src_parserecv_proofs.
Import ListNotations.

(** frame reassembly over an ARBITRARY codec that honours the interface laws
    [lawful2] refines the one-pass scan with that codec's framing, for every way
    the transport splits the bytes (the C03 guarantee, generalised) *)
Theorem C20_reassembly_any_codec : forall (K : codec), lawful2 K -> forall chunks : link,
  wf_link chunks ->
  exists rest, krecv_all K chunks = Some (fst (kscan K (List.concat chunks)), rest).
Proof. exact krecv_all_scan. Qed.

(** the built-in codec is one such codec, and the generic model instantiated
    with it IS the model the C03 theorems are about *)
Theorem C20_serial_lawful : lawful2 serial_codec.
Proof. exact serial_lawful2. Qed.

Theorem C20_serial_instance : forall chunks, krecv_all serial_codec chunks = recv_all chunks.
Proof. exact krecv_all_serial. Qed.

(** every member of the parameterised family (start byte, header length 3..8,
    length and id fields at any position, 1- or 2-byte length in either
    endianness, XOR or additive-sum footer of 1..4 bytes) honours the laws ... *)
Theorem C20_family_lawful : forall m, fam_ok m = true -> lawful2 (fam_codec m).
Proof. exact family_lawful2. Qed.

(** ... hence reassembly behaves with each of them exactly as with the built-in one *)
Theorem C20_family_reassembly : forall m, fam_ok m = true -> forall chunks : link,
  wf_link chunks ->
  exists rest, krecv_all (fam_codec m) chunks = Some (fst (kscan (fam_codec m) (List.concat chunks)), rest).
Proof. exact family_reassembly. Qed.

(** the laws are needed: a codec that satisfies the first six laws but declares a
    negative length (or accepts the empty frame) makes the result depend on the chunking *)
Theorem C20_laws_needed : lawful neg_codec /\
  krecv_all neg_codec [[85%N; 1%N]; [2%N]] <> Some (fst (kscan neg_codec [85%N; 1%N; 2%N]), []).
Proof. split; [exact neg_codec_lawful|]. vm_compute. discriminate. Qed.

(** ** on comm.py as it is now: CommHandler._read_hdr / _read_frame (regenerated abstract syntax,
    PyLite interpreter, scripted link) with ANY codec object [cdc] in the parser.  [implements
    cdc K kf]: the four things the client side uses of a codec - the hdr_len property,
    hdr_find(data=...), hdr_decode(data=...), frame_decode(...) - behave, when interpreted, as
    the codec record [K] says (results as DParseHdr / DParseFrame objects, the codec object
    unchanged).  Then the client extracts, for every chunking, exactly the frames of one scan
    with that codec's framing - the text of comm.py never looks at anything else of a codec. *)
Section OnSource.
Import PyLite Src_all Src_serialframe_proofs Src_reasm_proofs Src_reasm_generic Src_xorframe_proofs.
Open Scope string_scope.

Theorem C20_read_frame_any_codec_src : forall cdc K kf, implements cdc K kf ->
  forall fuel prev l,
  (S (S (Nat.max kf (S (measure prev l)))) <= fuel)%nat ->
  call_method program fuel (gch cdc prev l) "_read_frame" [] = gemb_frame_meth cdc (kread_frame K prev l).
Proof. exact read_frame_gspec. Qed.

Theorem C20_reassembly_any_codec_src : forall cdc K kf, implements cdc K kf ->
  (forall d fid p, k_frame_decode K d = Frame.Ok (fid, p) -> known_id fid = true) ->
  forall F chunks,
  lawful2 K -> wf_link chunks ->
  (S (S (Nat.max kf (S (List.length (List.concat chunks) + List.length chunks)))) <= F)%nat ->
  exists rest, gsrc_recv_all cdc F chunks = Some (fst (kscan K (List.concat chunks)), rest).
Proof. exact gsrc_recv_all_scan. Qed.

(** not vacuous: the built-in codec object implements the built-in codec record *)
Theorem C20_builtin_implements_src : implements sf serial_codec 3.
Proof. exact sf_implements. Qed.

(** the device-side dispatcher asks the codec only for hdr_find / hdr_len / foot_len / hdr_decode /
    foot_validate, in the order and with the guards of the model (here with the built-in codec object;
    any change of that text breaks this obligation) *)
Theorem C20_dispatch_refines_src : forall n lg d,
  call_method program (4 + n) (Src_parserecv_proofs.pr lg) "recv_handle" [PBytes d] = Src_parserecv_proofs.emb_recv lg d.
Proof. exact Src_parserecv_proofs.recv_handle_gen_spec. Qed.

(** a CUSTOM codec written in Python (class XorFrame of the harness prelude: start 0x7E, id,
    16-bit little-endian length, one-byte XOR footer - translated and interpreted like the
    library): it is the family member [xm], so with it the interpreted client delivers, for
    every chunking, exactly the frames of one scan with that codec's framing; and it round-trips *)
Theorem C20_custom_codec_src : forall F chunks,
  wf_link chunks ->
  (4 + List.length (List.concat chunks) + List.length chunks <= F)%nat ->
  exists rest, gsrc_recv_all xf F chunks = Some (fst (kscan (fam_codec xm) (List.concat chunks)), rest).
Proof. exact xf_recv_all_scan. Qed.
End OnSource.

Print Assumptions C20_reassembly_any_codec.
Print Assumptions C20_family_lawful.
Print Assumptions C20_family_reassembly.
Print Assumptions C20_reassembly_any_codec_src.
Print Assumptions C20_builtin_implements_src.
Print Assumptions C20_custom_codec_src.

(** C08 - stream samples reach every subscriber exactly once and in device order. *)
From Coq Require Import List ZArith Bool.
From NX Require Import Deliver Deliver_proofs Pinned_nxscope Pinned_comm.
Import ListNotations.
Open Scope nat_scope.

(** one frame: every queue gets, appended to what it held, the groups of the
    channels it is subscribed to (enabled channels with samples in that frame),
    once per subscription, in channel order; nothing else changes *)
Theorem C08_one_frame : forall s f q,
  qget (queues (deliver s f)) q =
  qget (queues s) q ++ received f (enabled s) (subs s) q (seq 0 (length (enabled s))).
Proof. exact deliver_spec. Qed.

(** any sequence of frames (any length, any mix of channels, zero to many
    samples per frame, flags set or not): gap-free, duplicate-free, in order *)
Theorem C08_many_frames : forall fs s q,
  qget (queues (fold_left deliver fs s)) q =
  qget (queues s) q ++
  flat_map (fun f => received f (enabled s) (subs s) q (seq 0 (length (enabled s)))) fs.
Proof. exact deliver_many. Qed.

(** a queue subscribed once to channel c receives per frame exactly the samples of c *)
Theorem C08_single_subscription : forall f en sb q c n,
  c < n -> mult sb c q = 1 -> (forall c', c' <> c -> mult sb c' q = 0) ->
  received f en sb q (seq 0 n) = match group c f en with [] => [] | g => [g] end.
Proof. exact received_single. Qed.

(** frames without samples for the queue's channels (no samples at all, only
    other channels, only disabled channels, just the overflow flag) do not disturb it *)
Theorem C08_nothing_for_queue : forall s f q,
  (forall c, mult (subs s) c q > 0 -> group c f (enabled s) = []) ->
  qget (queues (deliver s f)) q = qget (queues s) q.
Proof. exact nothing_for_queue. Qed.

Theorem C08_empty_frame : forall s fl q, qget (queues (deliver s (mkSF fl []))) q = qget (queues s) q.
Proof. exact empty_frame_harmless. Qed.

(** an unsubscribed queue receives nothing *)
Theorem C08_unsubscribed : forall s q f,
  qget (queues (deliver (unsubscribe s q) f)) q = qget (queues s) q.
Proof. exact unsubscribed_gets_nothing. Qed.

(** the two hops in front are FIFO for every interleaving of device, receive
    thread and stream thread: delivered ++ waiting = sent, in order *)
Theorem C08_fifo : forall tr p p',
  prun tr p = Some p' ->
  done_q p' ++ stream_q p' ++ wire_q p' = done_q p ++ stream_q p ++ wire_q p ++ sent tr.
Proof. exact pipeline_fifo. Qed.

(** progress / eventual delivery under fairness of the two library threads:
    while anything is in flight one of them can step, and draining delivers
    everything sent, in order, in at most 2*|wire| + |stream queue| steps *)
Theorem C08_progress : forall p, wire_q p <> [] \/ stream_q p <> [] ->
  (exists p', pstep p PRoute = Some p') \/ (exists p', pstep p PTake = Some p').
Proof. exact pipeline_progress. Qed.

Theorem C08_eventually : forall p,
  let p' := drain (2 * length (wire_q p) + length (stream_q p)) p in
  wire_q p' = [] /\ stream_q p' = [] /\ done_q p' = done_q p ++ stream_q p ++ wire_q p.
Proof. exact drain_delivers. Qed.

Print Assumptions C08_many_frames.
Print Assumptions C08_nothing_for_queue.
Print Assumptions C08_fifo.
Print Assumptions C08_eventually.

(** C08 - stream samples reach every subscriber exactly once and in device order. *)
From Coq Require Import List ZArith Bool.
From NX Require Import Deliver Deliver_proofs Pinned_nxscope Pinned_comm.
Import ListNotations.
Open Scope nat_scope.

(** one frame: every queue gets, appended to what it held, the groups of the
    channels it is subscribed to (enabled channels with samples in that frame),
    once per subscription, in channel order; nothing else changes *)
Theorem C08_one_frame : forall s f q,
  qget (queues (deliver s f)) q =
  qget (queues s) q ++ received f (enabled s) (subs s) q (seq 0 (length (enabled s))).
Proof. exact deliver_spec. Qed.

(** any sequence of frames (any length, any mix of channels, zero to many
    samples per frame, flags set or not): gap-free, duplicate-free, in order *)
Theorem C08_many_frames : forall fs s q,
  qget (queues (fold_left deliver fs s)) q =
  qget (queues s) q ++
  flat_map (fun f => received f (enabled s) (subs s) q (seq 0 (length (enabled s)))) fs.
Proof. exact deliver_many. Qed.

(** a queue subscribed once to channel c receives per frame exactly the samples of c *)
Theorem C08_single_subscription : forall f en sb q c n,
  c < n -> mult sb c q = 1 -> (forall c', c' <> c -> mult sb c' q = 0) ->
  received f en sb q (seq 0 n) = match group c f en with [] => [] | g => [g] end.
Proof. exact received_single. Qed.

(** frames without samples for the queue's channels (no samples at all, only
    other channels, only disabled channels, just the overflow flag) do not disturb it *)
Theorem C08_nothing_for_queue : forall s f q,
  (forall c, mult (subs s) c q > 0 -> group c f (enabled s) = []) ->
  qget (queues (deliver s f)) q = qget (queues s) q.
Proof. exact nothing_for_queue. Qed.

Theorem C08_empty_frame : forall s fl q, qget (queues (deliver s (mkSF fl []))) q = qget (queues s) q.
Proof. exact empty_frame_harmless. Qed.

(** an unsubscribed queue receives nothing *)
Theorem C08_unsubscribed : forall s q f,
  qget (queues (deliver (unsubscribe s q) f)) q = qget (queues s) q.
Proof. exact unsubscribed_gets_nothing. Qed.

(** the two hops in front are FIFO for every interleaving of device, receive
    thread and stream thread: delivered ++ waiting = sent, in order *)
Theorem C08_fifo : forall tr p p',
  prun tr p = Some p' ->
  done_q p' ++ stream_q p' ++ wire_q p' = done_q p ++ stream_q p ++ wire_q p ++ sent tr.
Proof. exact pipeline_fifo. Qed.

(** progress / eventual delivery under fairness of the two library threads:
    while anything is in flight one of them can step, and draining delivers
    everything sent, in order, in at most 2*|wire| + |stream queue| steps *)
Theorem C08_progress : forall p, wire_q p <> [] \/ stream_q p <> [] ->
  (exists p', pstep p PRoute = Some p') \/ (exists p', pstep p PTake = Some p').
Proof. exact pipeline_progress. Qed.

Theorem C08_eventually : forall p,
  let p' := drain (2 * length (wire_q p) + length (stream_q p)) p in
  wire_q p' = [] /\ stream_q p' = [] /\ done_q p' = done_q p ++ stream_q p ++ wire_q p.
Proof. exact drain_delivers. Qed.

Print Assumptions C08_many_frames.
Print Assumptions C08_nothing_for_queue.
Print Assumptions C08_fifo.
Print Assumptions C08_eventually.

(** * On the source (pl14): the receive thread, the stream path and the fan-out as INTERPRETED code
    (comm.py [_recv_thread], [stream_data]; nxscope.py [_stream_thread]), the queues and the link being the
    harness stubs.  Proofs: proofs/Src_recvpath_*.v. *)
From Coq Require String.
From NX Require PyLite Src_all Src_reasm_proofs Src_recvpath_proofs Src_recvpath_session Src_recvpath_stream
  Src_recvpath_deliver Src_recvpath_deliver_model Src_stream_proofs Src_stream_model Stream Reasm Bytes.
Section OnSource.
Import String PyLite Src_all.
Import Src_recvpath_proofs Src_recvpath_session Src_recvpath_stream Src_recvpath_deliver Src_recvpath_deliver_model.
Import Src_stream_proofs Src_stream_model.
Open Scope string_scope.
Open Scope list_scope.

(** first hop, one call of the receive thread body: one reassembly step, then the routing rule *)
Theorem C08_recv_thread_src : forall fuel dv q qs prev l,
  (6 + Src_reasm_proofs.measure prev l <= fuel)%nat ->
  call_method program fuel (rch dv q qs prev l) "_recv_thread" [] = recv_meth dv q qs (Reasm.read_frame prev l).
Proof. exact recv_thread_spec. Qed.

(** first hop, to exhaustion: the stream queue gets exactly the stream frames of ONE scan of the bytes, in
    order, the other queue the rest (minus ACKs before the handshake), for every chunking and every number
    of further calls *)
Theorem C08_recv_session_src : forall F k dv q qs prev chunks,
  Bytes.wf_bytes prev -> Reasm_proofs.wf_link chunks ->
  (6 + Src_reasm_proofs.measure prev chunks <= F)%nat -> (Src_reasm_proofs.measure prev chunks <= k)%nat ->
  exists rest,
    iter_thread F k (rch dv q qs prev chunks) =
    PyLite.Ok (rch dv (q ++ filter (to_q (is_none dv)) (fst (Reasm.scan (prev ++ List.concat chunks))))
                      (qs ++ filter to_stream (fst (Reasm.scan (prev ++ List.concat chunks)))) rest []).
Proof. exact recv_thread_session. Qed.

(** second hop: the next stream frame, decoded as the model decoder does *)
Theorem C08_stream_data_src : forall n dd cfgs chans data r,
  Forall cfg_ok cfgs ->
  sdata_rel (sch (dev_obj dd cfgs) chans r)
    (Stream.stream_decode (lay_of cfgs) [] data)
    (call_method program (4 + List.length data + n) (sch (dev_obj dd cfgs) chans (SFrame 1 data :: r)) "stream_data" []).
Proof. exact stream_data_model. Qed.

(** the fan-out, one frame: the per-frame delivery function *)
Theorem C08_stream_thread_src : forall dd_rest cfgs en en_new div_now div_new en_sync div_sync,
  List.length en = List.length cfgs -> Forall cfg_ok cfgs ->
  forall n data r subs ovf fl ss,
  indexed cfgs -> List.length subs = List.length cfgs ->
  Stream.stream_decode (lay_of cfgs) [] data = Frame.Ok (Some (fl, ss)) -> existsb sample_lossy ss = false ->
  call_method program (6 + List.length data + n)
    (nxh (sch (dev_obj (ddata_pv (Z.of_nat (List.length cfgs)) dd_rest) cfgs)
              (chans_pv en en_new div_now div_new en_sync div_sync) (SFrame 1 data :: r)) subs ovf)
    "_stream_thread" [] =
  PyLite.Ok (PNone,
             nxh (sch (dev_obj (ddata_pv (Z.of_nat (List.length cfgs)) dd_rest) cfgs)
                      (chans_pv en en_new div_now div_new en_sync div_sync) r)
                 (Src_recvpath_deliver.deliver en ss subs) (if (Z.land fl 1 =? 0)%Z then ovf else (ovf + 1)%Z)).
Proof. exact stream_thread_frame. Qed.

(** what each queue of channel c gets from one frame: one item, the samples of c in frame order, iff there
    are any and c is enabled in the client's view; otherwise it is untouched *)
Theorem C08_queue_src : forall en ss subs c,
  nth c (Src_recvpath_deliver.deliver en ss subs) [] =
  map (fun q => (fst q, snd q ++ app_items en ss c)) (nth c subs []).
Proof. exact deliver_row_app. Qed.

(** the model of this file, run on the abstraction of the same frame, appends the image of the same selection *)
Theorem C08_model_src : forall (val : Stream.sample -> Z) st fl ss q c,
  Forall (fun s => (0 <= Stream.s_chan s)%Z) ss ->
  (c < List.length (enabled st))%nat -> mult (subs st) c q = 1%nat -> (forall c', c' <> c -> mult (subs st) c' q = 0%nat) ->
  qget (queues (Deliver.deliver st (abs_frame val fl ss))) q =
  qget (queues st) q ++ match gsel (enabled st) ss c with [] => [] | l => [map val l] end.
Proof. exact model_appends. Qed.
End OnSource.

Print Assumptions C08_recv_thread_src.
Print Assumptions C08_recv_session_src.
Print Assumptions C08_stream_data_src.
Print Assumptions C08_stream_thread_src.
Print Assumptions C08_queue_src.
Print Assumptions C08_model_src.

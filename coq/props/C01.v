(** C01 - emitted frames are the NxScope serial wire format and round-trip.
    Only statements, [exact], and [Print Assumptions]. *)
From Coq Require Import String ZArith List.
From NX Require Import Bytes Frame Wire Frame_proofs.
Open Scope Z_scope.

(** every frame id 0..255, every payload of 0..65529 bytes: the emitted bytes
    are the wire format (CRC = bit-serial polynomial remainder, big-endian) *)
Theorem C01_layout : forall fid p,
  0 <= fid <= 255 -> zlen p <= 65529 ->
  frame_create fid p = Ok (wire (Z.to_N fid) p).
Proof. exact frame_create_layout. Qed.

(** decoding the wire format returns the same id and payload (ids 0..8) *)
Theorem C01_roundtrip : forall fid p,
  0 <= fid <= 8 -> wf_bytes p -> zlen p <= 65529 ->
  frame_decode (wire (Z.to_N fid) p) = Ok (fid, p).
Proof. exact frame_roundtrip. Qed.

(** a payload that does not fit the 16-bit length field is refused *)
Theorem C01_refuse : forall fid p,
  0 <= fid <= 255 -> ~ zlen p <= 65529 ->
  frame_create fid p = Raise "struct.error".
Proof. exact frame_create_refuse. Qed.

(** non-vacuity: id 5 with a 3-byte payload *)
Example C01_example :
  frame_create 5 [1; 2; 3]%N = Ok [85; 9; 0; 5; 1; 2; 3; 6; 166]%N /\
  frame_decode [85; 9; 0; 5; 1; 2; 3; 6; 166]%N = Ok (5, [1; 2; 3]%N).
Proof. split; vm_compute; reflexivity. Qed.

Print Assumptions C01_layout.
Print Assumptions C01_roundtrip.
Print Assumptions C01_refuse.

(** C01 - emitted frames are the NxScope serial wire format and round-trip.
    Only statements, [exact], and [Print Assumptions]. *)
From Coq Require Import String ZArith List.
From NX Require Import Bytes Frame Wire Frame_proofs.
From NX Require PyLite Src_all Src_serialframe_proofs Src_frame_corollaries.
Open Scope Z_scope.

(** every frame id 0..255, every payload of 0..65529 bytes: the emitted bytes
    are the wire format (CRC = bit-serial polynomial remainder, big-endian) *)
Theorem C01_layout : forall fid p,
  0 <= fid <= 255 -> zlen p <= 65529 ->
  frame_create fid p = Ok (wire (Z.to_N fid) p).
Proof. exact frame_create_layout. Qed.

(** decoding the wire format returns the same id and payload (ids 0..8) *)
Theorem C01_roundtrip : forall fid p,
  0 <= fid <= 8 -> wf_bytes p -> zlen p <= 65529 ->
  frame_decode (wire (Z.to_N fid) p) = Ok (fid, p).
Proof. exact frame_roundtrip. Qed.

(** a payload that does not fit the 16-bit length field is refused *)
Theorem C01_refuse : forall fid p,
  0 <= fid <= 255 -> ~ zlen p <= 65529 ->
  frame_create fid p = Raise "struct.error".
Proof. exact frame_create_refuse. Qed.

(** ** the same, about the text of serialframe.py as it is now: the abstract syntax
    regenerated from /repo (gen/Src_serialframe.v), run by the PyLite interpreter with
    any fuel >= 1 (resp. 3), on the object SerialFrame() *)
Section OnSource.
Import PyLite Src_all Src_serialframe_proofs Src_frame_corollaries.
Open Scope string_scope.

Theorem C01_constructor_src : forall n, construct program (S n) "SerialFrame" [] = PyLite.Ok sf.
Proof. exact construct_spec. Qed.

Theorem C01_layout_src : forall n fid p,
  0 <= fid <= 255 -> zlen p <= 65529 ->
  call_method program (1 + n) sf "frame_create" [PInt fid; PBytes p] =
  PyLite.Ok (PBytes (wire (Z.to_N fid) p), sf).
Proof. exact src_frame_create_layout. Qed.

Theorem C01_none_payload_src : forall n fid,
  0 <= fid <= 255 ->
  call_method program (1 + n) sf "frame_create" [PInt fid; PNone] =
  PyLite.Ok (PBytes (wire (Z.to_N fid) []), sf).
Proof. exact src_frame_create_none. Qed.

Theorem C01_roundtrip_src : forall n fid p,
  0 <= fid <= 8 -> wf_bytes p -> zlen p <= 65529 ->
  call_method program (3 + n) sf "frame_decode" [PBytes (wire (Z.to_N fid) p)] =
  PyLite.Ok (frame_obj (enum_id fid) p noerr, sf).
Proof. exact src_frame_roundtrip. Qed.

Theorem C01_refuse_src : forall n fid p,
  0 <= fid <= 255 -> ~ zlen p <= 65529 ->
  call_method program (1 + n) sf "frame_create" [PInt fid; PBytes p] = Exc "struct.error".
Proof. exact src_frame_create_refuse. Qed.

(** the interpreted source IS the model, input for input (no hypothesis on the bytes) *)
Theorem C01_source_refines_model : forall n fid data,
  call_method program (1 + n) sf "frame_create" [PInt fid; PBytes data] = emb_create (Frame.frame_create fid data).
Proof. exact frame_create_spec. Qed.
End OnSource.

(** non-vacuity: id 5 with a 3-byte payload *)
Example C01_example :
  frame_create 5 [1; 2; 3]%N = Ok [85; 9; 0; 5; 1; 2; 3; 6; 166]%N /\
  frame_decode [85; 9; 0; 5; 1; 2; 3; 6; 166]%N = Ok (5, [1; 2; 3]%N).
Proof. split; vm_compute; reflexivity. Qed.

Print Assumptions C01_layout.
Print Assumptions C01_roundtrip.
Print Assumptions C01_refuse.
Print Assumptions C01_layout_src.
Print Assumptions C01_roundtrip_src.
Print Assumptions C01_refuse_src.

(** C03 - frame reassembly depends on the bytes received, not on how reads split them. *)
From Coq Require Import String ZArith List.
From NX Require Import Bytes Frame Wire Reasm Dispatch_proofs Frame_proofs Reasm_proofs C03_corollaries.
From NX Require PyLite Src_all Src_serialframe_proofs Src_reasm_proofs Src_reasm_session.
Open Scope Z_scope.

(** for every way the transport splits the bytes into reads (any number of empty
    reads in between), the frames the client extracts are exactly those of one
    left-to-right scan of the concatenation; the receive loop never runs out of
    fuel (it always returns to its caller) and never raises *)
Theorem C03_chunking : forall chunks : link,
  wf_link chunks ->
  exists rest, recv_all chunks = Some (fst (scan (List.concat chunks)), rest).
Proof. exact recv_all_scan. Qed.

(** one call of the read routine, in front of any future bytes *)
Theorem C03_one_call_frame : forall prev l fid p prev' l',
  wf_bytes prev -> wf_link l -> read_frame prev l = FFrame fid p prev' l' ->
  wf_bytes prev' /\ wf_link l' /\
  forall fut, wf_bytes fut ->
    fst (scan (prev ++ List.concat l ++ fut)) = (fid, p) :: fst (scan (prev' ++ List.concat l' ++ fut)).
Proof. exact read_frame_frame. Qed.

Theorem C03_one_call_none : forall prev l prev' l',
  wf_bytes prev -> wf_link l -> read_frame prev l = FNone prev' l' ->
  wf_bytes prev' /\ wf_link l' /\
  forall fut, wf_bytes fut ->
    fst (scan (prev ++ List.concat l ++ fut)) = fst (scan (prev' ++ List.concat l' ++ fut)).
Proof. exact read_frame_none. Qed.

(** back-to-back valid frames are each delivered exactly once and in order *)
Theorem C03_back_to_back : forall fs tail,
  Forall valid_frame fs ->
  fst (scan (List.concat (map (fun f => wire (Z.to_N (fst f)) (snd f)) fs) ++ tail)) =
  fs ++ fst (scan tail).
Proof. exact scan_back_to_back. Qed.

(** a valid frame that follows noise without a start byte is not lost *)
Theorem C03_after_noise : forall noise fid p tail,
  no_sof noise -> 0 <= fid <= 8 -> wf_bytes p -> payload_fits p ->
  fst (scan (noise ++ wire (Z.to_N fid) p ++ tail)) = (fid, p) :: fst (scan tail).
Proof. exact scan_after_noise. Qed.

Example C03_example :
  recv_all [[0; 0; 0; 85]; [6; 0; 2; 91]; []; [156; 85; 6]; [0; 2; 91; 156]]%N =
  Some ([(2, []); (2, [])], []).
Proof. vm_compute. reflexivity. Qed.

(** ** CommHandler._read_hdr / _read_frame of comm.py as they are now: the regenerated
    abstract syntax, run by the PyLite interpreter on a handler whose link hands out the
    chunks [l] (scripted stub of tools/harness/prelude_py.py, translated with the rest) and
    whose buffer holds [prev], computes exactly the model above - result AND receiver state
    (buffer, unread chunks) - for every buffer, every chunk list and every fuel above a bound
    linear in the bytes and chunks in flight; the interpreter never runs out of fuel *)
Section OnSource.
Import PyLite Src_all Src_serialframe_proofs Src_reasm_proofs Src_reasm_session.
Open Scope string_scope.

Theorem C03_read_frame_src : forall fuel prev l,
  (5 + measure prev l <= fuel)%nat ->
  call_method program fuel (ch prev l) "_read_frame" [] = emb_frame_meth (read_frame prev l).
Proof. exact read_frame_spec. Qed.

Theorem C03_read_frame_returns_src : forall fuel prev l,
  (5 + measure prev l <= fuel)%nat ->
  call_method program fuel (ch prev l) "_read_frame" [] <> Fuel.
Proof. exact read_frame_no_fuel. Qed.

Theorem C03_link_read_src : forall n l,
  call_method program (1 + n) (intf l) "read" [] =
  PyLite.Ok (PBytes (fst (read l)), intf (snd (read l))).
Proof. exact intf_read_spec. Qed.

(** the whole receive loop: calling the interpreted _read_frame again and again (a driver
    that looks only at the values the interpreter returns: result and receiver) until the
    link is exhausted yields, for EVERY chunking, the frames of one scan of the concatenation *)
Theorem C03_chunking_src : forall F chunks,
  wf_link chunks ->
  (5 + length (List.concat chunks) + length chunks <= F)%nat ->
  exists rest, src_recv_all F chunks = Some (fst (scan (List.concat chunks)), rest).
Proof. exact src_recv_all_scan. Qed.
End OnSource.

Print Assumptions C03_chunking.
Print Assumptions C03_one_call_frame.
Print Assumptions C03_one_call_none.
Print Assumptions C03_back_to_back.
Print Assumptions C03_after_noise.
Print Assumptions C03_read_frame_src.
Print Assumptions C03_chunking_src.

(** Canonical form of the values [struct.unpack] returns for what
    [struct.pack] was given (Python: bools given to integer codes come back as
    ints, anything given to '?' comes back as bool, 's' pads/truncates, an int /
    bool / finite float given to 'f' or 'd' comes back as the float it was rounded
    to - here: as that float's bit pattern). *)
From NX Require Export PyStruct.
From NX Require Import Float Rn53.
Open Scope Z_scope.

(** the bit pattern struct.pack('f' / 'd') writes for a value that is not already a
    bit pattern: float(z) for an int or bool ('f': then narrowed to single), the
    correctly rounded float for a dyadic.  None: pack refuses (overflow / wrong type). *)
Definition f32_bits (v : value) : option Z :=
  match v with
  | VDy n x => f32_encode n x
  | VInt _ | VBool _ =>
      match int_of_value v with
      | Some z => match f64_of_int z with
                  | Some _ => f32_encode (rn53 z) 0
                  | None => None
                  end
      | None => None
      end
  | _ => None
  end.

Definition f64_bits (v : value) : option Z :=
  match v with
  | VDy n x => f64_encode n x
  | VInt _ | VBool _ =>
      match int_of_value v with
      | Some z => f64_of_int z
      | None => None
      end
  | _ => None
  end.

Definition canon_one (c : code) (v : value) : value :=
  match c with
  | Cbool => match v with VInt z => VBool (negb (z =? 0)) | _ => v end
  | Cf => match f32_bits v with Some b => VF32 (Z.to_N b) | None => v end
  | Cd => match f64_bits v with Some b => VF64 (Z.to_N b) | None => v end
  | Cc | Cs | Cx => v
  | _ => match v with VBool b => VInt (if b then 1 else 0) | _ => v end
  end.

Fixpoint canon_many (c : code) (n : nat) (vs : list value)
  : list value * list value :=
  match n with
  | O => (nil, vs)
  | S n' =>
      match vs with
      | nil => (nil, nil)
      | v :: r => let (a, rest) := canon_many c n' r in (canon_one c v :: a, rest)
      end
  end.

Definition canon_item (it : item) (vs : list value) : list value * list value :=
  match icode it with
  | Cx => (nil, vs)
  | Cs => match vs with
          | VBytes l :: r =>
              (VBytes (firstn (icnt it) (l ++ repeat 0%N (icnt it))) :: nil, r)
          | _ => (nil, vs)
          end
  | c => canon_many c (icnt it) vs
  end.

Fixpoint canon_items (its : list item) (vs : list value) : list value :=
  match its with
  | nil => nil
  | it :: r => let (a, rest) := canon_item it vs in a ++ canon_items r rest
  end.

(** Canonical form of the values [struct.unpack] returns for what
    [struct.pack] was given (Python: bools given to integer codes come back as
    ints, anything given to '?' comes back as bool, 's' pads/truncates). *)
From NX Require Export PyStruct.
Open Scope Z_scope.

Definition canon_one (c : code) (v : value) : value :=
  match c with
  | Cbool => match v with VInt z => VBool (negb (z =? 0)) | _ => v end
  | Cc | Cf | Cd | Cs | Cx => v
  | _ => match v with VBool b => VInt (if b then 1 else 0) | _ => v end
  end.

Fixpoint canon_many (c : code) (n : nat) (vs : list value)
  : list value * list value :=
  match n with
  | O => (nil, vs)
  | S n' =>
      match vs with
      | nil => (nil, nil)
      | v :: r => let (a, rest) := canon_many c n' r in (canon_one c v :: a, rest)
      end
  end.

Definition canon_item (it : item) (vs : list value) : list value * list value :=
  match icode it with
  | Cx => (nil, vs)
  | Cs => match vs with
          | VBytes l :: r =>
              (VBytes (firstn (icnt it) (l ++ repeat 0%N (icnt it))) :: nil, r)
          | _ => (nil, vs)
          end
  | c => canon_many c (icnt it) vs
  end.

Fixpoint canon_items (its : list item) (vs : list value) : list value :=
  match its with
  | nil => nil
  | it :: r => let (a, rest) := canon_item it vs in a ++ canon_items r rest
  end.

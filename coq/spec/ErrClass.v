(** Classes of transmission errors named by C02, as bit patterns. *)
From Coq Require Import List Arith Bool.
From NX Require Export Bytes Crc.
Open Scope nat_scope.
Import ListNotations.

Definition weight (l : list bool) : nat := count_occ bool_dec l true.

(** all the 1-bits of the pattern lie in a window of [k] consecutive positions *)
Definition burst_le (k : nat) (l : list bool) : Prop :=
  exists i, forall j, nth j l false = true -> i <= j < i + k.

Definition err_class (l : list bool) : Prop :=
  weight l = 1 \/ weight l = 2 \/ Nat.odd (weight l) = true \/
  (1 <= weight l /\ burst_le 16 l).

(** Independent specification of the NxScope serial wire format: a list
    expression, with the CRC given by the bit-serial polynomial remainder. *)
From NX Require Export Bytes Crc.
Open Scope N_scope.

Definition wire_hdr (fid : N) (plen : N) : bytes :=
  [85; (plen + 6) mod 256; (plen + 6) / 256; fid].

Definition wire (fid : N) (p : bytes) : bytes :=
  let body := wire_hdr fid (N.of_nat (length p)) ++ p in
  let c := crc_spec body in
  body ++ [c / 256; c mod 256].

(** acceptance (C02): what a byte string must satisfy to be taken as frame
    [(fid, p)] *)
Definition accepts (d : bytes) (fid : N) (p : bytes) : Prop :=
  exists lo hi rest,
    d = 85 :: lo :: hi :: fid :: rest /\
    fid <= 8 /\
    let flen := lo + 256 * hi in
    6 <= flen /\ flen <= N.of_nat (length d) /\
    crc_spec (firstn (N.to_nat flen) d) = 0 /\
    p = firstn (N.to_nat flen - 6) rest.

#!/bin/bash
# Offline build of the whole Coq development + the extracted model driver.
set -e
cd "$(dirname "$0")"
export PYTHONHASHSEED=0
/venv/bin/python tools/extract.py --quiet || true
cd coq
coq_makefile -f _CoqProject -o Makefile.coq > /dev/null
timeout 3000 make -f Makefile.coq -j16
bash extract/build.sh
bash extract/build_py.sh
echo "setup done"
